/* leakdrv_h.c -- C17: the returns of the REAL expert driver pdgssvx that do not factor anything --
 * the workspace query (lwork = -1) and the failed initial allocation (user workspace too small, or the
 * system allocator refusing the factor arrays) -- with EVERYTHING under it real up to the point where
 * worker threads would start: sp_colorder (+etree, counts), pdgstrf, pdgstrf_thread_init, relax_snode,
 * ParallelInit, dPresetMap, pdgstrf_MemInit (real pdmemory.c), StatAlloc/StatFree.  E1, bit-precise.
 * USER_MALLOC / USER_FREE (the library's override points) are counting wrappers; SCEN 3 adds fault injection:
 * from a symbolic request number on, every request larger than the integer work arrays is refused.
 *   SCEN 1  lwork = -1                      : info = estimate + n, nothing factored, balance zero
 *   SCEN 2  lwork > 0 too small for MemInit : info > n, balance zero, L/U not inspected (F5)
 *   SCEN 3  lwork = 0, allocator refuses the factor arrays: info > n, balance zero
 * Not reached (cut): the worker threads (pthread_create stub ends the path).
 */
#include "slu_mt_ddefs.h"
#include "vh.h"
int vh_log_i; double vh_log_d;
#define VH_OWN_PTHREAD_CREATE
#include "env_stubs.h"
#ifndef NN
#define NN 2
#endif
#ifndef SCEN
#define SCEN 1
#endif
#ifndef LD_NR
#define LD_NR 0
#endif
#ifndef LD_SYM
#define LD_SYM 0
#endif
#ifndef LD_WIT
#define LD_WIT 0
#endif
#ifndef LD_PC
#define LD_PC 0x43210
#endif
#ifndef LD_P
#define LD_P 1
#endif
#ifndef LD_W
#define LD_W 1
#endif
#ifndef LD_RELAX
#define LD_RELAX 1
#endif
#ifndef LD_TRANS
#define LD_TRANS 0
#endif
int_t sp_ienv(int_t i) { return i == 3 ? 2 : (i >= 6 ? -2 : 1); }

/* ---- counting allocator; SCEN 3: inside pdgstrf_MemInit every request is refused from a symbolic request number on
   (a refused per-column integer array ends in the library's abort: such paths end there) ---- */
static int live, nreq, in_meminit, refuse_from = 1 << 20;
void *vh_malloc(size_t s)
{
#if SCEN == 3
    if (in_meminit) { ++nreq; if (nreq > refuse_from) return 0; }
#endif
    ++live;
    return malloc(s);
}
void vh_free(void *p) { if (p) --live; free(p); }
int xerbla_(char *s, int *i) { vh_assert(0, "xerbla_ called on valid arguments"); return 0; }
extern float real_pdgstrf_MemInit(int_t, int_t, superlumt_options_t *, SuperMatrix *, SuperMatrix *, GlobalLU_t *);
float pdgstrf_MemInit(int_t n, int_t annz, superlumt_options_t *o, SuperMatrix *L, SuperMatrix *U, GlobalLU_t *Glu)
{
    float r;
    in_meminit = 1; r = real_pdgstrf_MemInit(n, annz, o, L, U, Glu); in_meminit = 0;
    return r;
}
#ifndef VH_CBMC
void *pdgstrf_thread(void *a) { return 0; }   /* never run (the stub below ends the path); gives the native link an address */
#endif
static char *wb_lo, *wb_hi;   /* the caller's workspace (SCEN 2) */
static int reached_threads;
static int inbuf(void *p, long bytes) { return (char *)p >= wb_lo && (char *)p + bytes <= wb_hi; }
static int apart(void *p, long pb, void *q, long qb) { return (char *)p + pb <= (char *)q || (char *)q + qb <= (char *)p; }
int pthread_create(pthread_t *t, const pthread_attr_t *a, void *(*f)(void *), void *arg)
{   /* the initial allocation succeeded (possibly after retries with halved requests): the factorization proper is not
       part of these queries, but what it is about to work on is checked (C14): with a caller-supplied workspace the
       nine per-column arrays and the four factor arrays lie inside it and do not overlap */
#if SCEN == 2
    {
        GlobalLU_t *G = ((pdgstrf_threadarg_t *)arg)->pxgstrf_shared->Glu;
        void *p[13]; long b[13]; int i, j, k = 0;
        p[k] = G->xsup; b[k++] = (NN + 1) * sizeof(int_t);   p[k] = G->xsup_end; b[k++] = NN * sizeof(int_t);
        p[k] = G->supno; b[k++] = (NN + 1) * sizeof(int_t);  p[k] = G->xlsub; b[k++] = (NN + 1) * sizeof(int_t);
        p[k] = G->xlsub_end; b[k++] = NN * sizeof(int_t);    p[k] = G->xlusup; b[k++] = (NN + 1) * sizeof(int_t);
        p[k] = G->xlusup_end; b[k++] = NN * sizeof(int_t);   p[k] = G->xusub; b[k++] = (NN + 1) * sizeof(int_t);
        p[k] = G->xusub_end; b[k++] = NN * sizeof(int_t);
        p[k] = G->lusup; b[k++] = G->nzlumax * sizeof(double); p[k] = G->ucol; b[k++] = G->nzumax * sizeof(double);
        p[k] = G->lsub; b[k++] = G->nzlmax * sizeof(int_t);    p[k] = G->usub; b[k++] = G->nzumax * sizeof(int_t);
        for (i = 0; i < 13; ++i) {
            vh_assert(p[i] != 0 && inbuf(p[i], b[i]), "every array of the factorization lies inside the caller's workspace");
            for (j = 0; j < i; ++j) vh_assert(apart(p[i], b[i], p[j], b[j]), "arrays carved out of the caller's workspace do not overlap");
        }
        vh_assert(((unsigned long)G->lusup & 7) == 0 && ((unsigned long)G->ucol & 7) == 0, "value arrays are aligned");
    }
#endif
    reached_threads = 1;
#if defined(WITNESS) && LD_WIT == 1
    vh_assert(0, "WITNESS reached");
#endif
    vh_assume(0);
    return 0;
}
/* the driver must not look into factors that were never created (known finding F5 when it does) */
static SuperMatrix *gL, *gU; static int c_query;
int_t superlu_dQuerySpace(int_t P, SuperMatrix *L, SuperMatrix *U, int_t w, superlu_memusage_t *mu)
{
    ++c_query;
    vh_assert(L->Store != 0 && U->Store != 0, "the factors are not inspected after a failed allocation");
    return 0;
}

VH_MAIN
{
    static SuperMatrix A, L, U, B, X; static NCformat ast; static DNformat bst, xst;
    static double aval[NN * NN], bval[NN], xval[NN], R[NN], C[NN], ferr[1], berr[1], rpg, rcond;
    static int_t rowind[NN * NN], colptr[NN + 1], perm_c[NN], perm_r[NN], etree[NN], colcnt_h[NN], part_super_h[NN];
    static superlumt_options_t opt; static superlu_memusage_t mu;
    static double workbuf[10 * NN * NN + 1];   /* 80 n^2 bytes: from nothing fits to everything fits */
    int_t info = 99;
    int i, j, nnz = 0;

    for (j = 0; j < NN; ++j) { colptr[j] = nnz; for (i = 0; i < NN; ++i) if ((PAT >> (i + j * NN)) & 1) { rowind[nnz] = i; aval[nnz] = vh_double(); ++nnz; } }
    colptr[NN] = nnz;
    ast.nnz = nnz; ast.nzval = aval; ast.rowind = rowind; ast.colptr = colptr;
    A.Stype = LD_NR ? SLU_NR : SLU_NC; A.Dtype = SLU_D; A.Mtype = SLU_GE; A.nrow = NN; A.ncol = NN; A.Store = &ast;
    bst.lda = NN; bst.nzval = bval; xst.lda = NN; xst.nzval = xval;
    B.Stype = SLU_DN; B.Dtype = SLU_D; B.Mtype = SLU_GE; B.nrow = NN; B.ncol = 1; B.Store = &bst; X = B; X.Store = &xst;
    for (i = 0; i < NN; ++i) perm_c[i] = (int)(((unsigned long)LD_PC >> (4 * i)) & 15UL);   /* concrete column order */
    opt.fact = DOFACT; opt.trans = (trans_t)LD_TRANS; opt.refact = NO; opt.usepr = NO;
    opt.nprocs = LD_P; opt.panel_size = LD_W; opt.relax = LD_RELAX;
    opt.diag_pivot_thresh = 1.0; opt.drop_tol = 0.0; opt.SymmetricMode = LD_SYM ? YES : NO; opt.PrintStat = NO;
    opt.perm_c = perm_c; opt.perm_r = perm_r; opt.etree = etree; opt.colcnt_h = colcnt_h; opt.part_super_h = part_super_h;
    L.Store = 0; U.Store = 0; gL = &L; gU = &U;
#if SCEN == 1
    opt.work = 0; opt.lwork = -1;
#elif SCEN == 2
    { int off = vh_int_in(0, 7);   /* any alignment of the caller's buffer */
      opt.work = (char *)workbuf + off; opt.lwork = vh_int_in(1, (int)sizeof(workbuf) - 8);
      wb_lo = (char *)opt.work; wb_hi = wb_lo + opt.lwork; }
#else
    opt.work = 0; opt.lwork = 0;
    refuse_from = vh_int_in(1, 20);   /* request 1 is the expander table, whose refusal the library does not handle (outside the claim) */
#endif
    pdgssvx(opt.nprocs, &opt, &A, perm_c, perm_r, (equed_t *)&(equed_t){NOEQUIL}, R, C, &L, &U, &B, &X, &rpg, &rcond, ferr, berr, &mu, &info);

    vh_assert(info > NN, "no factorization: info reports the storage figure plus n");
    vh_assert(L.Store == 0 && U.Store == 0, "no factors are handed back");
    /* nothing is handed back to the caller on these returns (the option arrays are the caller's), so nothing may stay allocated */
    vh_assert(live == 0, "after a workspace query / failed initial allocation nothing stays allocated");
#if LD_WIT == 0
    VH_WITNESS();
#endif
    return 0;
}
