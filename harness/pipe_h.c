/* pipe_h.c -- C03(d) / C01 / C02 "under every interleaving": two workers over the REAL
 * factorization functions, sequentialised at the granularity of the steps below, with a
 * concrete schedule script per query (scripts are iterated by the driver) and symbolic values.
 *
 * Real code: everything full_h.c runs, except that the loop of p?gstrf_thread is re-stated
 * here step by step so that two workers can be interleaved (the real p?gstrf_thread itself is
 * covered by full_h.c):
 *   SCHED        pxgstrf_scheduler
 *   RELAX        pdgstrf_factor_snode, release all columns, state DONE
 *   PANEL_DFS    pxgstrf_mark_busy_descends, pdgstrf_panel_dfs
 *   PANEL_BMOD   pdgstrf_panel_bmod   (its await() calls run the OTHER worker until the awaited
 *                column is released: hook H2 in await.c), then the marker2 set-up
 *   COL(jj)      [pxgstrf_super_bnd_dfs] pdgstrf_column_dfs, pdgstrf_column_bmod, pivotL, release jj
 *   COLPOST(jj)  pdgstrf_copy_to_ucol, pxgstrf_pruneL, pxgstrf_resetrep_col; after the last: DONE
 *
 * Additional yield points inside a step: before the pivot of column c (forced-pivot stub) the
 * other worker runs VH_MIDYIELD[c] of its steps -- this is how a parent panel is taken and
 * searched (mark_busy_descends, panel_dfs) while a relaxed supernode below it is half done.
 *
 * "No column is consumed before it is final": storage that has not been written yet is
 * unconstrained in the encoding, so a worker that reads a column before its owner has computed
 * it (or skips / doubles an update) makes Pr*A*Pc = L*U fail for some value.  A worker that
 * would have to wait for a column whose owner is suspended inside one of its own steps cannot
 * be represented (the query is then infeasible and reported as such by its witness).
 */
#include "slu_mt_ddefs.h"
#include "vh.h"
#ifndef N
#define N 3
#endif
#ifndef VH_W
#define VH_W 1
#endif
#ifndef VH_RELAX
#define VH_RELAX 1
#endif
#ifndef VH_MAXSUP
#define VH_MAXSUP 3
#endif
#ifndef VH_ROWBLK
#define VH_ROWBLK 2
#endif
#ifndef VH_COLBLK
#define VH_COLBLK 2
#endif
#ifndef VH_FILL6
#define VH_FILL6 (4 * N * N)
#endif
#ifndef VH_FILL7
#define VH_FILL7 (N * N)
#endif
#ifndef VH_FILL8
#define VH_FILL8 (4 * N * N)
#endif
#define NW 2
#define VH_REAL double
#define VH_MEMINIT pdgstrf_MemInit
#define VH_WORKINIT pdgstrf_WorkInit
#define VH_WORKFREE pdgstrf_WorkFree
#define VH_EXPANDERS dexpanders
#define VH_PIVOTL pdgstrf_pivotL
#define VH_EXPECT_NONSINGULAR
int vh_log_i; double vh_log_d;
#define VH_OWN_AWAIT
#define VH_OWN_LUSUP
#include "env_stubs.h"
#include "mem_stubs.h"
int_t vh_permc_final[N] = VH_PERMC;
int vh_pat_at(int i, int j) { return (int)(((unsigned long)PAT >> (i + j * N)) & 1UL); }
int vh_fpat_at(int i, int j) { return vh_pat_at(i, j); }
static void vh_pivot_yield(int pnum, int jcol);
#define VH_PIVOT_YIELD(p, j) vh_pivot_yield(p, j)
#include "pivot_stub.h"
#include "refblas.h"
int_t sp_ienv(int_t ispec)
{
    switch (ispec) { case 1: return VH_W; case 2: return VH_RELAX; case 3: return VH_MAXSUP; case 4: return VH_ROWBLK;
                     case 5: return VH_COLBLK; case 6: return VH_FILL6; case 7: return VH_FILL7; case 8: return VH_FILL8; }
    return -1;
}
int xerbla_(char *s, int *i) { vh_assert(0, "xerbla_ called on valid arguments"); return 0; }
#define WF_ANY_SUPERNODE_ORDER
#include "wf_lu.h"

extern pdgstrf_threadarg_t *pdgstrf_thread_init(SuperMatrix *, SuperMatrix *, SuperMatrix *, superlumt_options_t *,
                                                pxgstrf_shared_t *, Gstat_t *, int_t *);
extern void pdgstrf_thread_finalize(pdgstrf_threadarg_t *, pxgstrf_shared_t *, SuperMatrix *, int_t *, SuperMatrix *, SuperMatrix *);

enum { S_SCHED, S_RELAX, S_PDFS, S_PBMOD, S_COL, S_COLPOST, S_EXIT };
static struct worker {
    int st, jj; int_t jcol, bcol, w, nseg1, nseg, pivrow, info, singular;
    int_t *iwork; double *dwork;
    int_t *segrep, *parent, *xplore, *repfnz, *panel_lsub, *marker, *marker1, *marker2, *lbusy, *spa_marker, *w_lsub_end;
    double *dense, *tempv;
} W[NW];
static pxgstrf_shared_t sh;
static superlumt_options_t opt;
static SuperMatrix AC;
static int cur_worker = -1, depth;
static int steps_done;

static int holds_locked(int q, int c)   /* worker q owns column c and has not released it */
{
    return W[q].st != S_SCHED && W[q].st != S_EXIT && W[q].jcol != EMPTY && c >= W[q].jcol && c < W[q].jcol + W[q].w && sh.spin_locks[c] != 0;
}

static int step(int p);
static int suspended = -1;           /* worker suspended inside one of its own steps (mid-step yield) */
#ifndef VH_MIDYIELD
#define VH_MIDYIELD {0}
#endif
static const int midyield[N + 1] = VH_MIDYIELD;
static void vh_pivot_yield(int pnum, int jcol)
{
    int k, me = cur_worker;
    if (depth != 0 || suspended >= 0) return;
    suspended = pnum;
    for (k = 0; k < midyield[jcol]; ++k) step(1 - pnum);
    suspended = -1;
    cur_worker = me;
}

/* hook H2 (await.c under XIAOYELI_SUPERLU_MT_VERIF): the spinning worker lets the other one run */
void slu_mt_verif_await(volatile int_t *status)
{
    int other = 1 - cur_worker, guard = 0, me = cur_worker;
    if (depth >= 1) {   /* the worker that is being waited for must not have to wait itself */
        vh_assert(*status == 0, "a worker that is being waited for never waits itself (no wait cycle)");
        vh_assume(*status == 0);
        return;
    }
    ++depth;
    while (*status) {
        int moved;
        if (suspended == other) { vh_assume(0); }   /* not representable: the owner sits inside its own step */
        vh_assert(guard < 4 * N + 4, "an awaited column is eventually released");
        if (guard >= 4 * N + 4) { vh_assume(0); }
        moved = step(other);
        vh_assert(moved, "the owner of an awaited column can make progress (no lost wake-up)");
        if (!moved) { vh_assume(0); }
        ++guard;
    }
    cur_worker = me;
    --depth;
}

static int step(int p)
{
    struct worker *w = &W[p];
    GlobalLU_t *Glu = sh.Glu;
    int m = N, c, k;
    int moved = 1;
    if (w->st == S_EXIT) return 0;
    cur_worker = p;
    ++steps_done;
    switch (w->st) {
    case S_SCHED:
        if (sh.tasks_remain <= 0) { w->st = S_EXIT; break; }
        {
            int_t before = sh.taskq.head, j0 = w->jcol;
            pxgstrf_scheduler(p, N, opt.etree, &w->jcol, &w->bcol, &sh);
            moved = (j0 != EMPTY) || (w->jcol != EMPTY) || before != sh.taskq.head;
            if (w->jcol != EMPTY) {
                w->w = sh.pan_status[w->jcol].size;
                w->st = (sh.pan_status[w->jcol].type == RELAXED_SNODE) ? S_RELAX : S_PDFS;
            }
        }
        break;
    case S_RELAX:
        pdgstrf_factor_snode(p, w->jcol, &AC, opt.diag_pivot_thresh, &opt.usepr, opt.perm_r, sh.inv_perm_r, sh.inv_perm_c,
                             sh.xprune, w->marker, w->panel_lsub, w->dense, w->tempv, &sh, &w->info);
        vh_assert(w->info == 0, "relaxed supernode factored (all forced pivots non-zero)");
        for (c = w->jcol; c < w->jcol + w->w; ++c) sh.spin_locks[c] = 0;
        sh.pan_status[w->jcol].state = DONE;
        w->st = S_SCHED;
        break;
    case S_PDFS:
        pxgstrf_mark_busy_descends(p, w->jcol, opt.etree, &sh, &w->bcol, w->lbusy);
        pdgstrf_panel_dfs(p, m, w->w, w->jcol, &AC, opt.perm_r, sh.xprune, sh.ispruned, w->lbusy, &w->nseg1, w->panel_lsub,
                          w->w_lsub_end, w->segrep, w->repfnz, w->marker, w->spa_marker, w->parent, w->xplore, w->dense, Glu);
        w->st = S_PBMOD;
        break;
    case S_PBMOD:
        pdgstrf_panel_bmod(p, m, w->w, w->jcol, w->bcol, sh.inv_perm_r, opt.etree, &w->nseg1, w->segrep, w->repfnz, w->panel_lsub,
                           w->w_lsub_end, w->spa_marker, w->dense, w->tempv, &sh);
        cur_worker = p;
        {
            int_t jm1 = w->jcol - 1;
            for (k = Glu->xlsub[jm1]; k < Glu->xlsub_end[jm1]; ++k) w->marker2[Glu->lsub[k]] = jm1;
        }
        w->jj = w->jcol; w->st = S_COL;
        break;
    case S_COL:
        {
            int_t jj = w->jj, kk = (jj - w->jcol) * m;
            w->nseg = w->nseg1;
            if (Glu->dynamic_snode_bound && opt.part_super_h[jj])
                pxgstrf_super_bnd_dfs(p, m, N, jj, opt.part_super_h[jj], &AC, opt.perm_r, sh.inv_perm_r, sh.xprune, sh.ispruned,
                                      w->marker1, w->parent, w->xplore, &sh);
            w->info = pdgstrf_column_dfs(p, m, jj, w->jcol, opt.perm_r, sh.ispruned, &w->panel_lsub[kk], w->w_lsub_end[jj - w->jcol],
                                         opt.part_super_h, &w->nseg, w->segrep, &w->repfnz[kk], sh.xprune, w->marker2, w->parent, w->xplore, &sh);
            vh_assert(w->info == 0, "column_dfs succeeds");
            w->info = pdgstrf_column_bmod(p, jj, w->jcol, w->nseg - w->nseg1, &w->segrep[w->nseg1], &w->repfnz[kk], &w->dense[kk], w->tempv, &sh, sh.Gstat);
            vh_assert(w->info == 0, "column_bmod succeeds");
            w->info = pdgstrf_pivotL(p, jj, opt.diag_pivot_thresh, &opt.usepr, opt.perm_r, sh.inv_perm_r, sh.inv_perm_c, &w->pivrow, Glu, sh.Gstat);
            vh_assert(w->info == 0, "pivot non-zero");
            sh.spin_locks[jj] = 0;
            w->st = S_COLPOST;
        }
        break;
    case S_COLPOST:
        {
            int_t jj = w->jj, kk = (jj - w->jcol) * m;
            w->info = pdgstrf_copy_to_ucol(p, jj, w->nseg, w->segrep, &w->repfnz[kk], opt.perm_r, &w->dense[kk], &sh);
            vh_assert(w->info == 0, "copy_to_ucol succeeds");
            pxgstrf_pruneL(jj, opt.perm_r, w->pivrow, w->nseg, w->segrep, &w->repfnz[kk], sh.xprune, sh.ispruned, Glu);
            pxgstrf_resetrep_col(w->nseg, w->segrep, &w->repfnz[kk]);
            ++w->jj;
            if (w->jj < w->jcol + w->w) w->st = S_COL;
            else { sh.pan_status[w->jcol].state = DONE; w->st = S_SCHED; }
        }
        break;
    }
    return moved;
}

VH_MAIN
{
    static double aval[N * N], Ad[N][N];
    static int_t rowind[N * N], colptr[N + 1], perm_r[N];
    static const int script[] = VH_SCRIPT;
    static Gstat_t Gstat;
    SuperMatrix A, L, U; static NCformat ast;
    pdgstrf_threadarg_t *targ;
    int i, j, k, nnz = 0, p;
    int_t info = 0;

    for (j = 0; j < N; ++j) { colptr[j] = nnz; for (i = 0; i < N; ++i) { Ad[i][j] = 0; if (vh_pat_at(i, j)) { rowind[nnz] = i;
#ifdef VH_CONCRETE_MASK
            /* entries selected by the mask get fixed generic values: they feed the value tests that decide segment shapes */
            /* (pinned through an assumption rather than written as a literal: cbmc would fold literal arithmetic in IEEE
               double precision, which is not the exact arithmetic the query is decided in) */
            if ((VH_CONCRETE_MASK >> (i + j * N)) & 1UL) { aval[nnz] = vh_double();
#ifndef VH_CBMC   /* native replay: a pinned entry takes its pinned value */
                aval[nnz] = (double)(2 + ((i * 7 + j * 3) % 5)) + (double)(i + 1) / 8.0;
#endif
                vh_assume(aval[nnz] == (double)(2 + ((i * 7 + j * 3) % 5)) + (double)(i + 1) / 8.0); } else
#endif
            aval[nnz] = vh_double(); Ad[i][j] = aval[nnz]; ++nnz; } } }
    colptr[N] = nnz;
    ast.nnz = nnz; ast.nzval = aval; ast.rowind = rowind; ast.colptr = colptr;
    A.Stype = SLU_NC; A.Dtype = SLU_D; A.Mtype = SLU_GE; A.nrow = N; A.ncol = N; A.Store = &ast;

    StatAlloc(N, NW, VH_W, VH_RELAX, &Gstat); StatInit(N, NW, &Gstat);
    pdgstrf_init(NW, DOFACT, NOTRANS, NO, VH_W, VH_RELAX, 1.0, NO, 0.0, vh_permc_final, perm_r, 0, 0, &A, &AC, &opt, &Gstat);
    targ = pdgstrf_thread_init(&AC, &L, &U, &opt, &sh, &Gstat, &info);
    vh_assert(targ != 0 && info == 0, "thread_init succeeds");
    for (p = 0; p < NW; ++p) {
        struct worker *w = &W[p];
        int_t r = pdgstrf_WorkInit(N, VH_W, &w->iwork, &w->dwork);
        vh_assert(r == 0, "work storage");
        pxgstrf_SetIWork(N, VH_W, w->iwork, &w->segrep, &w->parent, &w->xplore, &w->repfnz, &w->panel_lsub, &w->marker, &w->lbusy);
        pdgstrf_SetRWork(N, VH_W, w->dwork, &w->dense, &w->tempv);
        w->spa_marker = intMalloc(N * VH_W); w->w_lsub_end = intMalloc(VH_W);
        ifill(w->spa_marker, N * VH_W, EMPTY); ifill(w->marker, N * NO_MARKER, EMPTY); ifill(w->lbusy, N, EMPTY);
        w->jcol = EMPTY; w->marker1 = w->marker + N; w->marker2 = w->marker + 2 * N; w->st = S_SCHED;
    }
    /* scripted interleaving, then round-robin until both workers have left their loops */
    for (k = 0; k < (int)(sizeof script / sizeof script[0]); ++k) if (script[k] >= 0) step(script[k]);
    for (k = 0; k < 12 * N + 12; ++k) {
        if (W[0].st == S_EXIT && W[1].st == S_EXIT) break;
        step(k & 1);
    }
    vh_assert(W[0].st == S_EXIT && W[1].st == S_EXIT, "both workers terminate");
    vh_assert(sh.tasks_remain == 0, "no task left");
    for (j = 0; j < N; ++j) vh_assert(sh.spin_locks[j] == 0, "every column released");
    targ[0].info = 0; targ[1].info = 0;
    pdgstrf_thread_finalize(targ, &sh, &AC, perm_r, &L, &U);
    vh_assert(info == 0, "info == 0");
    wf_lu_check(N, &L, &U, perm_r, vh_permc_final);
    eq_lu_check(N, &L, &U, perm_r, vh_permc_final, Ad);
    VH_WITNESS();
    return 0;
}
