/* force-included (-include) into library sources whose USER_MALLOC/USER_FREE are routed to counting wrappers */
#include <stddef.h>
void *vh_malloc(size_t);
void vh_free(void *);
