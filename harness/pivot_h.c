/* pivot_h.c -- C02(b)/C06/C08(iii)/C16: the REAL p?gstrf_pivotL from an arbitrary supernode
 * state, against the pivot policy written as a specification (ordered field, Real mode).
 *
 * Shape (concrete per query): NSUPC earlier columns of the supernode, NSUPR rows,
 * DIAG = candidate index of the diagonal row (or -1: not among the candidates),
 * OLD = candidate index of the previously used pivot row (or -1), USEPR in {0,1}.
 * Symbolic: all values of the supernode, threshold u in [0,1].
 */
#include "slu_mt_ddefs.h"
#include "vh.h"
int vh_log_i; double vh_log_d;
#include "env_stubs.h"
#ifndef NSUPC
#define NSUPC 1
#endif
#ifndef NSUPR
#define NSUPR 3
#endif
#ifndef DIAG
#define DIAG (-1)
#endif
#ifndef OLD
#define OLD (-1)
#endif
#ifndef USEPR
#define USEPR 0
#endif
#define NROWS 8           /* original row ids 0..7 */
#define FSUPC 2           /* first column of the supernode */
#define JCOL (FSUPC + NSUPC)
#define NCAND (NSUPR - NSUPC)

int_t sp_ienv(int_t i) { return 1; }
static double absd(double x) { return x < 0 ? -x : x; }

VH_MAIN
{
    /* rows of the supernode: distinct original row ids; the first NSUPC are pivoted already */
    static const int_t rows0[8] = {5, 1, 6, 0, 3, 7, 2, 4};
    static int_t lsub[16], xlsub[NROWS], xlsub_end[NROWS], xsup[NROWS], supno[NROWS], xlusup[NROWS];
    static double lusup[4 + (NSUPC + 1) * NSUPR + 4], pre[(NSUPC + 1) * NSUPR];
    static int_t perm_r[NROWS], perm_r0[NROWS], inv_perm_r[NROWS], inv_perm_r0[NROWS], inv_perm_c[NROWS];
    static procstat_t procstat[1];
    GlobalLU_t Glu; Gstat_t Gstat;
    int i, c, k;
    const int LP = 3, VP = 2;   /* offsets of the supernode inside lsub / lusup */
    yes_no_t usepr = USEPR ? YES : NO;
    int_t pivrow = -7, info;
    double u = vh_double_in(0.0, 1.0);

    for (i = 0; i < 16; ++i) lsub[i] = -99;
    for (i = 0; i < NSUPR; ++i) lsub[LP + i] = rows0[i];
    for (i = 0; i < NROWS; ++i) { perm_r[i] = EMPTY; inv_perm_r[i] = EMPTY; inv_perm_c[i] = (i * 3 + 1) % NROWS; supno[i] = 0; }
    for (c = 0; c < NSUPC; ++c) { perm_r[rows0[c]] = FSUPC + c; inv_perm_r[FSUPC + c] = rows0[c]; }
    /* the diagonal of column JCOL is original row inv_perm_c[JCOL] */
    if (DIAG >= 0) inv_perm_c[JCOL] = rows0[NSUPC + DIAG];
    else { inv_perm_c[JCOL] = 4; /* rows0[7], never part of a supernode with NSUPR <= 7 */ }
    if (USEPR) {
        /* a previous factorization's row order: inv_perm_r is complete; its entry for JCOL is the old pivot */
        for (i = 0; i < NROWS; ++i) inv_perm_r[i] = rows0[(i + 5) % NROWS];
        for (c = 0; c < NSUPC; ++c) inv_perm_r[FSUPC + c] = rows0[c];
        inv_perm_r[JCOL] = (OLD >= 0) ? rows0[NSUPC + OLD] : 4;
    }
    for (i = 0; i < NROWS; ++i) { perm_r0[i] = perm_r[i]; inv_perm_r0[i] = inv_perm_r[i]; }
    for (k = 0; k < (NSUPC + 1) * NSUPR; ++k) { lusup[VP + k] = vh_double(); pre[k] = lusup[VP + k]; }
    lusup[0] = lusup[1] = 111.0; lusup[VP + (NSUPC + 1) * NSUPR] = 222.0;
    for (c = 0; c <= NSUPC; ++c) { xsup[0] = FSUPC; supno[FSUPC + c] = 0; xlusup[FSUPC + c] = VP + c * NSUPR; }
    xlsub[FSUPC] = LP; xlsub_end[FSUPC] = LP + NSUPR;
    Glu.lsub = lsub; Glu.lusup = lusup; Glu.xlusup = xlusup; Glu.xsup = xsup; Glu.supno = supno;
    Glu.xlsub = xlsub; Glu.xlsub_end = xlsub_end;
    Gstat.procstat = procstat;

    info = pdgstrf_pivotL(0, JCOL, u, &usepr, perm_r, inv_perm_r, inv_perm_c, &pivrow, &Glu, &Gstat);
#ifdef NOCAND
    /* C06: a column without any candidate row (NSUPR == NSUPC) must be reported as singular without
       touching memory outside the supernode / the permutation arrays (CBMC's own checks are on) */
    vh_assert(info == JCOL + 1, "no candidate row: reported as exactly singular");
    for (i = 0; i < 16; ++i) if (i < LP || i >= LP + NSUPR) vh_assert(lsub[i] == -99, "no write outside the supernode's row list");
    VH_WITNESS();
    return 0;
#endif

    {
        double *col = pre + NSUPC * NSUPR;     /* pre-state of column JCOL */
        double mx = 0;
        int allzero = 1, p = -1;
        for (i = NSUPC; i < NSUPR; ++i) { if (absd(col[i]) > mx) mx = absd(col[i]); if (col[i] != 0.0) allzero = 0; }
        /* nothing outside the supernode's extents is written */
        vh_assert_eq(lusup[0], 111.0, "no write before the supernode's values");
        vh_assert_eq(lusup[VP + (NSUPC + 1) * NSUPR], 222.0, "no write after the supernode's values");
        for (i = 0; i < 16; ++i) if (i < LP || i >= LP + NSUPR) vh_assert(lsub[i] == -99, "no write outside the supernode's row list");
        for (i = 0; i < NSUPC; ++i) vh_assert(lsub[LP + i] == rows0[i], "already pivoted rows stay in place");
        /* which candidate ended up in the pivot position? */
        for (i = NSUPC; i < NSUPR; ++i) if (rows0[i] == lsub[LP + NSUPC]) p = i;
        vh_assert(p >= NSUPC, "the pivot position holds one of the candidate rows");
        vh_assert(pivrow == lsub[LP + NSUPC], "reported pivot row is the row moved to the pivot position");
        vh_assert(perm_r[pivrow] == JCOL && inv_perm_r[JCOL] == pivrow, "pivot row recorded in perm_r / inv_perm_r");
        for (i = 0; i < NROWS; ++i) {
            if (i != pivrow) vh_assert(perm_r[i] == perm_r0[i], "no other perm_r entry changes");
            if (i != JCOL) vh_assert(inv_perm_r[i] == inv_perm_r0[i], "no other inv_perm_r entry changes");
        }
        /* row list: positions NSUPC and p exchanged, nothing else */
        for (i = NSUPC; i < NSUPR; ++i) {
            int_t want = (i == NSUPC) ? rows0[p] : (i == p ? rows0[NSUPC] : rows0[i]);
            vh_assert(lsub[LP + i] == want, "row list = pre-state with pivot row exchanged into the pivot position");
        }
        if (allzero) {
            vh_assert(info == JCOL + 1, "all candidates zero: reports column+1");
            vh_assert(usepr == NO, "row-order reuse is abandoned after a zero pivot");
        } else {
            vh_assert(info == 0, "a non-zero candidate exists: success");
            vh_assert(col[p] != 0.0, "pivot is non-zero");
            vh_assert_le(u * mx, absd(col[p]), "pivot magnitude >= u * column maximum");
            if (USEPR && OLD >= 0 && col[NSUPC + OLD] != 0.0 && absd(col[NSUPC + OLD]) >= u * mx) {
                vh_assert(p == NSUPC + OLD, "the previous pivot row is kept when it passes the threshold");
                vh_assert(usepr == YES, "row-order reuse stays on");
            } else {
                vh_assert(usepr == NO, "row-order reuse is off when the old pivot is not a candidate or fails the threshold");
                if (DIAG >= 0 && col[NSUPC + DIAG] != 0.0 && absd(col[NSUPC + DIAG]) >= u * mx)
                    vh_assert(p == NSUPC + DIAG, "the diagonal is the pivot whenever it is non-zero and passes the threshold");
                else
                    vh_assert_eq(absd(col[p]), mx, "otherwise a row of maximum magnitude is the pivot");
            }
            /* values: whole supernode rows exchanged, then the column divided by the pivot */
            for (c = 0; c <= NSUPC; ++c)
                for (i = 0; i < NSUPR; ++i) {
                    int src = (i == NSUPC) ? p : (i == p ? NSUPC : i);
                    double want = pre[c * NSUPR + src];
                    if (c == NSUPC && i > NSUPC) {
                        vh_assert_eq(lusup[VP + c * NSUPR + i] * col[p], want, "sub-diagonal entries are divided by the pivot");
                        vh_assert_le(u * absd(lusup[VP + c * NSUPR + i]), 1.0, "multiplier bounded by 1/u");
                    } else
                        vh_assert_eq(lusup[VP + c * NSUPR + i], want, "row interchange applied to the whole supernode, nothing else changed");
                }
        }
    }
    VH_WITNESS();
    return 0;
}
