/* vh_native.c -- native (replay) implementation of the harness input layer.
 * Inputs come from the file named by $VH_REPLAY: one per line, "i <int>" or "d <double>"
 * (decimal or C99 hex float), consumed in call order by vh_int()/vh_double().
 * With $VH_RANDOM=<seed> doubles that are not in the file come from a small LCG instead
 * (used to confirm GF(p) counterexamples natively; ints still come from the file).
 * Exit codes: 0 all assertions held, 1 an assertion failed (REPLAY-ASSERT-FAIL line),
 * 3 an assumption of the harness does not hold for these inputs, 4 library abort.
 */
#include <stdio.h>
#include <stdlib.h>
#include <string.h>

static FILE *vh_f;
static int vh_opened;
static unsigned long long vh_rng;
static int vh_use_rng;

static void vh_open(void)
{
    const char *p = getenv("VH_REPLAY"), *r = getenv("VH_RANDOM");
    vh_opened = 1;
    if (p) vh_f = fopen(p, "r");
    if (r) { vh_use_rng = 1; vh_rng = strtoull(r, 0, 10) * 2654435761ULL + 12345ULL; }
}

/* own line reader: harnesses may replace fgets()/atof() of the code under test */
static int vh_getline(char *line, int n, FILE *f)
{
    int c, k = 0;
    while ((c = getc(f)) != EOF) { if (k < n - 1) line[k++] = (char)c; if (c == '\n') break; }
    line[k] = 0;
    return k > 0;
}

static int vh_next(char kind, char *buf, int n)
{
    char line[256];
    if (!vh_opened) vh_open();
    while (vh_f && vh_getline(line, sizeof line, vh_f)) {
        if (line[0] == kind && line[1] == ' ') { strncpy(buf, line + 2, n - 1); buf[n - 1] = 0; return 1; }
    }
    return 0;
}

int vh_int(void)
{
    char b[128];
    if (vh_next('i', b, sizeof b)) return (int)strtol(b, 0, 0);
    return 0;
}

double vh_double(void)
{
    char b[128];
    if (!vh_opened) vh_open();
    if (!vh_use_rng && vh_next('d', b, sizeof b)) return strtod(b, 0);   /* strtod, not atof: harnesses may stub atof */
    if (vh_use_rng) {
        vh_rng = vh_rng * 6364136223846793005ULL + 1442695040888963407ULL;
        /* small non-zero values with a few fractional bits: generic for polynomial identities */
        return (double)((long long)((vh_rng >> 33) % 2001) - 1000) / 64.0 + 0.013671875;
    }
    return 0.0;
}

double vh_double_in(double lo, double hi)
{
    double v = vh_double();
    if (vh_use_rng) {          /* map the generic value into the declared range */
        double t = (v + 16.0) / 32.0;
        t = t - (long long)t; if (t < 0) t += 1.0;
        return lo + t * (hi - lo);
    }
    if (!(v >= lo && v <= hi)) { printf("REPLAY-INFEASIBLE: assumption range [%g,%g] does not hold for input %g\n", lo, hi, v); exit(3); }
    return v;
}

void vh_fail(const char *msg)
{
    printf("REPLAY-ASSERT-FAIL: %s\n", msg);
    fflush(stdout);
    exit(1);
}

void vh_infeasible(const char *msg)
{
    printf("REPLAY-INFEASIBLE: assumption %s does not hold for these inputs\n", msg);
    fflush(stdout);
    exit(3);
}
