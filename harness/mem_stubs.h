/* mem_stubs.h -- typed replacement of the three allocator entry points that would
 * otherwise route every L/U array through a void* expander table and byte-sized
 * malloc()s (which makes the verification condition explode, DESIGN 2.3).
 * pdmemory.c is compiled with -Dpdgstrf_MemInit=real_pdgstrf_MemInit etc. so that the
 * rest of that file (dPresetMap, ...) stays real.  The allocator itself is verified
 * separately (C14).  Every array gets EXACTLY the element count the library's own
 * formulas give it (so CBMC's bounds checks see the real sizes), but typed.
 *
 * Requires macros: VH_REAL, VH_MEMINIT, VH_WORKINIT, VH_WORKFREE, VH_EXPANDERS.
 */
#ifndef VH_MEM_STUBS_H
#define VH_MEM_STUBS_H
#include "vh.h"

extern ExpHeader *VH_EXPANDERS;
int vh_meminit_calls, vh_workinit_calls, vh_workfree_calls;
int_t vh_nzlumax, vh_nzumax, vh_nzlmax;
int_t vh_map0[64], vh_map_n;   /* map_in_sup[] as dPresetMap left it (slot starts), for the C05 slot-bound hook */

float VH_MEMINIT(int_t n, int_t annz, superlumt_options_t *o, SuperMatrix *L, SuperMatrix *U,
                 GlobalLU_t *Glu)
{
    int_t nzumax, nzlmax, nzlumax;
    int_t f6 = sp_ienv(6), f7 = sp_ienv(7), f8 = sp_ienv(8);
    ++vh_meminit_calls;
    nzumax = f7 < 0 ? -f7 * annz : f7;
    nzlmax = f8 < 0 ? -f8 * annz : f8;
    if (Glu->dynamic_snode_bound == YES) nzlumax = f6 < 0 ? -f6 * annz : f6;
    else nzlumax = Glu->nzlumax;
    if (!VH_EXPANDERS) VH_EXPANDERS = (ExpHeader *)malloc(4 * sizeof(ExpHeader)) /* NO_MEMTYPE */;
    if (o->refact == YES) {
        /* re-factorization: rebind exactly the arrays inside the caller's L and U, sizes as retained in Glu
           (what the real routine does in its refact == YES branch) */
        SCPformat *Ls = (SCPformat *)L->Store; NCPformat *Us = (NCPformat *)U->Store;
        Glu->xsup = Ls->sup_to_colbeg; Glu->xsup_end = Ls->sup_to_colend; Glu->supno = Ls->col_to_sup;
        Glu->xlsub = Ls->rowind_colbeg; Glu->xlsub_end = Ls->rowind_colend; Glu->xlusup = Ls->nzval_colbeg; Glu->xlusup_end = Ls->nzval_colend;
        Glu->xusub = Us->colbeg; Glu->xusub_end = Us->colend;
        Glu->lsub = Ls->rowind; Glu->lusup = Ls->nzval; Glu->usub = Us->rowind; Glu->ucol = Us->nzval;
        { int_t j; vh_map_n = n; for (j = 0; j <= n && j < 64; ++j) vh_map0[j] = Glu->map_in_sup[j]; }
        return 0;
    }
    Glu->xsup = (int_t *)malloc((n + 1) * sizeof(int_t));
    Glu->xsup_end = (int_t *)malloc(n * sizeof(int_t));
    Glu->supno = (int_t *)malloc((n + 1) * sizeof(int_t));
    Glu->xlsub = (int_t *)malloc((n + 1) * sizeof(int_t));
    Glu->xlsub_end = (int_t *)malloc(n * sizeof(int_t));
    Glu->xlusup = (int_t *)malloc((n + 1) * sizeof(int_t));
    Glu->xlusup_end = (int_t *)malloc(n * sizeof(int_t));
    Glu->xusub = (int_t *)malloc((n + 1) * sizeof(int_t));
    Glu->xusub_end = (int_t *)malloc(n * sizeof(int_t));
    Glu->lusup = (VH_REAL *)malloc(nzlumax * sizeof(VH_REAL));
    Glu->ucol = (VH_REAL *)malloc(nzumax * sizeof(VH_REAL));
    Glu->lsub = (int_t *)malloc(nzlmax * sizeof(int_t));
    Glu->usub = (int_t *)malloc(nzumax * sizeof(int_t));
    Glu->nzlmax = nzlmax; Glu->nzumax = nzumax; Glu->nzlumax = nzlumax;
    vh_nzlumax = nzlumax; vh_nzumax = nzumax; vh_nzlmax = nzlmax;
    { int_t j; vh_map_n = n; for (j = 0; j <= n && j < 64; ++j) vh_map0[j] = Glu->map_in_sup[j]; }
    return 0;
}

int_t VH_WORKINIT(int_t n, int_t panel_size, int_t **iworkptr, VH_REAL **dworkptr)
{
    int_t maxsuper = sp_ienv(3), rowblk = sp_ienv(4);
    int_t ni = (2 * panel_size + 5 + NO_MARKER) * n;
    int_t nd = n * panel_size + SUPERLU_MAX(2 * n, (maxsuper + rowblk) * panel_size);
    int_t i;
    ++vh_workinit_calls;
#ifdef VH_IWORK_ARBITRARY
    *iworkptr = (int_t *)malloc(ni * sizeof(int_t));   /* user-workspace mode: ?user_malloc hands out the caller's bytes as they are */
#else
    *iworkptr = (int_t *)calloc(ni, sizeof(int_t));   /* intCalloc */
#endif
    (void)i;
    *dworkptr = (VH_REAL *)malloc(nd * sizeof(VH_REAL));
    return 0;
}

void VH_WORKFREE(int_t *iwork, VH_REAL *dwork, GlobalLU_t *Glu)
{
    ++vh_workfree_calls;
    free(iwork);
    free(dwork);
}
#ifdef VH_OWN_LUSUP
/* hook H1 (pmemory.c, Glu_alloc case LUSUP): C05 -- no L supernode outgrows the slot reserved for it.
   Static scheme: the slot of the H-supernode / relaxed supernode led by fsupc ends where the next leading
   column's slot starts (map_in_sup as dPresetMap left it; non-leading columns hold negative offsets).
   Dynamic scheme: slots are handed out on demand; the array bound is checked here and the disjointness
   of all column extents by WF_LU at the end. */
int vh_lusup_calls;
void slu_mt_verif_lusup(int_t jcol, int_t fsupc, int_t new_end, pxgstrf_shared_t *sh)
{
    GlobalLU_t *Glu = sh->Glu;
    ++vh_lusup_calls;
    vh_assert(fsupc >= 0 && fsupc <= jcol && jcol < vh_map_n, "LUSUP request for a column of the matrix");
    vh_assert(new_end <= Glu->nzlumax, "L supernode storage stays inside the lusup array");
    if (Glu->dynamic_snode_bound == NO) {
        int_t j, end = vh_map0[vh_map_n];
        for (j = vh_map_n - 1; j > fsupc; --j) if (vh_map0[j] >= 0) end = vh_map0[j];
        vh_assert(vh_map0[fsupc] >= 0, "requests are charged to the leading column of a reserved slot");
        vh_assert(new_end <= end, "no L supernode outgrows the slot reserved for it (predicted column counts dominate the actual L)");
    }
}
#endif
#endif
