/* fin_h.c -- C09(a): supernode numbers and L-subscript storage handed out by the REAL
 * NewNsuper / Glu_alloc(LSUB) to several workers in a symbolic interleaving (the two calls
 * are separate critical sections, exactly as in p?gstrf_snode_dfs / p?gstrf_column_dfs),
 * then the REAL p?gstrf_thread_finalize (countnz, fixupL, dCreate_SuperNode_Permuted / the refact = YES update of the
 * caller's L and U, combination of the workers' info values, release of the scheduling storage).  E1, bit-precise.
 *
 * NS supernodes partition the N columns into consecutive ranges (sizes symbolic); supernode s
 * has rows = its own columns followed by nx[s] further (larger) rows.  Each supernode is
 * created by some worker in two steps; the interleaving of all 2*NS steps is symbolic, with at
 * most NWORK supernodes between their two steps at any time.
 */
#include "slu_mt_ddefs.h"
#include "vh.h"
int vh_log_i; double vh_log_d;
#include "env_stubs.h"
#ifndef N
#define N 4
#endif
#ifndef NS
#define NS 2
#endif
#ifndef NWORK
#define NWORK 2
#endif
#define LMAX (4 * N * N)
extern int_t Glu_alloc(const int_t, const int_t, const int_t, const MemType, int_t *, pxgstrf_shared_t *);
extern void fixupL(const int_t, const int_t *, GlobalLU_t *);
extern void countnz(const int_t, int_t *, int_t *, int_t *, GlobalLU_t *);
extern void pdgstrf_thread_finalize(pdgstrf_threadarg_t *, pxgstrf_shared_t *, SuperMatrix *, int_t *, SuperMatrix *, SuperMatrix *);
ExpHeader *dexpanders;     /* p?memory.c is not part of this query */
int_t sp_ienv(int_t i) { return 1; }

VH_MAIN
{
    static int_t xsup[N + 1], xsup_end[N], supno[N + 1], lsub[LMAX], xlsub[N + 1], xlsub_end[N], perm_r[N];
    static int_t xlusup[N + 1], xlusup_end[N], xusub[N + 1], xusub_end[N], usub[1];
    static double ucol[1];
    int_t *xprune = (int_t *)malloc(N * sizeof(int_t));
    static double lusup[N * N + 1];
    pthread_mutex_t *locks = (pthread_mutex_t *)malloc(NO_GLU_LOCKS * sizeof(pthread_mutex_t));
    static procstat_t procstat[NWORK + 1];
    static GlobalLU_t Glu; static Gstat_t Gstat; static pxgstrf_shared_t sh;
    int_t fst[NS + 1], nx[NS], num[NS], off[NS], want[NS][N], len[NS];
    int stage[NS], s, k, j, e, inflight = 0, nextlu = 0;
    int_t nnzL = -1, nnzU = -1;
    static SuperMatrix L, U, A; static superlumt_options_t opt; static int_t info; int refact;
    pdgstrf_threadarg_t *ta = (pdgstrf_threadarg_t *)malloc(2 * sizeof(pdgstrf_threadarg_t));

    sh.Glu = &Glu; sh.Gstat = &Gstat; sh.lu_locks = locks; Gstat.procstat = procstat;
    Glu.xsup = xsup; Glu.xsup_end = xsup_end; Glu.supno = supno; Glu.lsub = lsub; Glu.xlsub = xlsub; Glu.xlsub_end = xlsub_end;
    Glu.lusup = lusup; Glu.xlusup = xlusup; Glu.xlusup_end = xlusup_end; Glu.xusub = xusub; Glu.xusub_end = xusub_end;
    Glu.nsuper = -1; Glu.nextl = 0; Glu.nextu = 0; Glu.nzlmax = LMAX;

    /* row permutation: any bijection */
    for (k = 0; k < N; ++k) { perm_r[k] = vh_int_in(0, N - 1); for (j = 0; j < k; ++j) vh_assume(perm_r[j] != perm_r[k]); }
    /* column partition */
    fst[0] = 0;
    for (s = 0; s < NS; ++s) { int w = vh_int_in(1, N); fst[s + 1] = fst[s] + w; stage[s] = 0; }
    vh_assume(fst[NS] == N);
    for (s = 0; s < NS; ++s) nx[s] = vh_int_in(0, N);
    for (s = 0; s < NS; ++s) vh_assume(fst[s + 1] + nx[s] <= N);

    /* the 2*NS allocation steps in a symbolic order */
    for (e = 0; e < 2 * NS; ++e) {
        s = vh_int_in(0, NS - 1);
        vh_assume(stage[s] < 2);
        if (stage[s] == 0) {
            vh_assume(inflight < NWORK);
            ++inflight;
            num[s] = NewNsuper(0, &sh, &Glu.nsuper);
            vh_assert(num[s] >= 0 && num[s] < N, "supernode number in range");
            xsup[num[s]] = fst[s]; xsup_end[num[s]] = fst[s + 1];
            for (j = 0; j < N; ++j) if (j >= fst[s] && j < fst[s + 1]) supno[j] = num[s];
        } else {
            /* rows in ORIGINAL numbering: the pre-images under perm_r of fst..fst+w-1, then of the next nx rows */
            len[s] = fst[s + 1] - fst[s] + nx[s];
            Glu_alloc(0, fst[s], 2 * len[s], LSUB, &off[s], &sh);
            vh_assert(off[s] >= 0 && off[s] + 2 * len[s] <= LMAX, "subscript block inside the array");
            xlsub[fst[s]] = off[s];
            for (k = 0; k < N; ++k) if (k < len[s]) {
                int target = fst[s] + k, r;
                for (r = 0; r < N; ++r) if (perm_r[r] == target) { lsub[off[s] + k] = r; lsub[off[s] + len[s] + k] = r; }
                want[s][k] = target;
            }
            xlsub_end[fst[s]] = off[s] + len[s];
            xprune[fst[s + 1] - 1] = off[s] + 2 * len[s];
            --inflight;
        }
        ++stage[s];
    }
    for (s = 0; s < NS; ++s) vh_assume(stage[s] == 2);
    /* value storage: sequential, as with one relaxed supernode after the other */
    for (s = 0; s < NS; ++s)
        for (j = 0; j < N; ++j) if (j >= fst[s] && j < fst[s + 1]) { xlusup[j] = nextlu; nextlu += len[s]; xlusup_end[j] = nextlu; xusub[j] = 0; xusub_end[j] = 0; }

    /* the REAL pdgstrf_thread_finalize, first-time or re-factorization (then the caller's L and U exist already, bound to the
       same arrays, with whatever counts the previous factorization left) */
    Glu.ucol = ucol; Glu.usub = usub;
    A.nrow = N; A.ncol = N;
    refact = vh_int_in(0, 1);
    opt.refact = refact ? YES : NO; opt.nprocs = 2;
    ta[0].info = vh_int_in(0, N); ta[1].info = vh_int_in(0, N); ta[0].superlumt_options = &opt; ta[1].superlumt_options = &opt;
#ifdef WITNESS
    vh_assume(ta[0].info == 0 && ta[1].info == 0);
#endif
    if (refact) {
        dCreate_SuperNode_Permuted(&L, N, N, vh_int(), lusup, xlusup, xlusup_end, lsub, xlsub, xlsub_end, supno, xsup, xsup_end, SLU_SCP, SLU_D, SLU_TRLU);
        ((SCPformat *)L.Store)->nsuper = vh_int();
        dCreate_CompCol_Permuted(&U, N, N, vh_int(), ucol, usub, xusub, xusub_end, SLU_NCP, SLU_D, SLU_TRU);
    }
    sh.info = &info; sh.xprune = xprune;
    sh.inv_perm_r = (int_t *)malloc(N * sizeof(int_t)); sh.inv_perm_c = (int_t *)malloc(N * sizeof(int_t)); sh.ispruned = (int_t *)malloc(N * sizeof(int_t));
    sh.spin_locks = (volatile int_t *)malloc(N * sizeof(int_t)); sh.pan_status = (pan_status_t *)malloc((N + 1) * sizeof(pan_status_t));
    sh.fb_cols = (int_t *)malloc((N + 1) * sizeof(int_t)); Glu.map_in_sup = (int_t *)malloc((N + 1) * sizeof(int_t));
    sh.taskq.queue = (qitem_t *)malloc(N * sizeof(qitem_t));
    dexpanders = (ExpHeader *)malloc(4 * sizeof(ExpHeader));
    {
        int_t i0 = ta[0].info, i1 = ta[1].info;
        pdgstrf_thread_finalize(ta, &sh, &A, perm_r, &L, &U);
        vh_assert(info == (i0 == 0 ? i1 : i1 == 0 ? i0 : i0 < i1 ? i0 : i1), "the factorization reports the smallest non-zero info of its workers");
    }
    vh_assert(dexpanders == 0, "expander table released and cleared");
    nnzL = ((SCPformat *)L.Store)->nnz;
    vh_assert(U.nrow == N && U.ncol == N && U.Stype == SLU_NCP && ((NCPformat *)U.Store)->colbeg == xusub && ((NCPformat *)U.Store)->colend == xusub_end, "U header wraps the factorization's arrays");
    {
        SCPformat *Ls = (SCPformat *)L.Store;
        int cnt = 0, cntU = 0, s2;
        vh_assert(Ls->nsuper == NS - 1, "number of supernodes");
        for (s = 0; s < NS; ++s) {
            int f = fst[s], b = Ls->rowind_colbeg[f], en = Ls->rowind_colend[f];
            vh_assert(Ls->sup_to_colbeg[num[s]] == f && Ls->sup_to_colend[num[s]] == fst[s + 1], "supernode <-> column maps");
            vh_assert(b >= 0 && en - b == len[s] && en <= LMAX, "row list of each supernode keeps its length, inside the array");
            for (k = 0; k < N; ++k) if (k < len[s])
                vh_assert(Ls->rowind[b + k] == want[s][k], "row list = own columns in order, then the larger rows (in Pr*A numbering)");
            for (s2 = 0; s2 < s; ++s2) {
                int b2 = Ls->rowind_colbeg[fst[s2]], e2 = Ls->rowind_colend[fst[s2]];
                vh_assert(en <= b2 || e2 <= b, "row-subscript extents of different supernodes do not overlap");
            }
            for (j = f; j < fst[s + 1]; ++j) { cnt += len[s] - (j - f); cntU += j - f + 1; }
        }
        vh_assert(Ls->nnz == cnt && nnzL == cnt, "nnz(L) equals the counted entries");
        vh_assert(((NCPformat *)U.Store)->nnz == cntU, "nnz(U) equals the counted entries (here: the upper triangles of the supernodes)");
    }
    free(L.Store); free(U.Store);
    VH_WITNESS();
    return 0;
}
