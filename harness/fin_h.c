/* fin_h.c -- C09(a): supernode numbers and L-subscript storage handed out by the REAL
 * NewNsuper / Glu_alloc(LSUB) to several workers in a symbolic interleaving (the two calls
 * are separate critical sections, exactly as in p?gstrf_snode_dfs / p?gstrf_column_dfs),
 * then the REAL countnz, fixupL and dCreate_SuperNode_Permuted.  E1, bit-precise.
 *
 * NS supernodes partition the N columns into consecutive ranges (sizes symbolic); supernode s
 * has rows = its own columns followed by nx[s] further (larger) rows.  Each supernode is
 * created by some worker in two steps; the interleaving of all 2*NS steps is symbolic, with at
 * most NWORK supernodes between their two steps at any time.
 */
#include "slu_mt_ddefs.h"
#include "vh.h"
int vh_log_i; double vh_log_d;
#include "env_stubs.h"
#ifndef N
#define N 4
#endif
#ifndef NS
#define NS 2
#endif
#ifndef NWORK
#define NWORK 2
#endif
#define LMAX (4 * N * N)
extern int_t Glu_alloc(const int_t, const int_t, const int_t, const MemType, int_t *, pxgstrf_shared_t *);
extern void fixupL(const int_t, const int_t *, GlobalLU_t *);
extern void countnz(const int_t, int_t *, int_t *, int_t *, GlobalLU_t *);
int_t sp_ienv(int_t i) { return 1; }

VH_MAIN
{
    static int_t xsup[N + 1], xsup_end[N], supno[N + 1], lsub[LMAX], xlsub[N + 1], xlsub_end[N], perm_r[N];
    static int_t xlusup[N + 1], xlusup_end[N], xusub[N + 1], xusub_end[N], xprune[N];
    static double lusup[N * N + 1];
    static pthread_mutex_t locks[NO_GLU_LOCKS];
    static procstat_t procstat[NWORK + 1];
    static GlobalLU_t Glu; static Gstat_t Gstat; static pxgstrf_shared_t sh;
    int_t fst[NS + 1], nx[NS], num[NS], off[NS], want[NS][N], len[NS];
    int stage[NS], s, k, j, e, inflight = 0, nextlu = 0;
    int_t nnzL = -1, nnzU = -1;
    SuperMatrix L;

    sh.Glu = &Glu; sh.Gstat = &Gstat; sh.lu_locks = locks; Gstat.procstat = procstat;
    Glu.xsup = xsup; Glu.xsup_end = xsup_end; Glu.supno = supno; Glu.lsub = lsub; Glu.xlsub = xlsub; Glu.xlsub_end = xlsub_end;
    Glu.lusup = lusup; Glu.xlusup = xlusup; Glu.xlusup_end = xlusup_end; Glu.xusub = xusub; Glu.xusub_end = xusub_end;
    Glu.nsuper = -1; Glu.nextl = 0; Glu.nextu = 0; Glu.nzlmax = LMAX;

    /* row permutation: any bijection */
    for (k = 0; k < N; ++k) { perm_r[k] = vh_int_in(0, N - 1); for (j = 0; j < k; ++j) vh_assume(perm_r[j] != perm_r[k]); }
    /* column partition */
    fst[0] = 0;
    for (s = 0; s < NS; ++s) { int w = vh_int_in(1, N); fst[s + 1] = fst[s] + w; stage[s] = 0; }
    vh_assume(fst[NS] == N);
    for (s = 0; s < NS; ++s) nx[s] = vh_int_in(0, N);
    for (s = 0; s < NS; ++s) vh_assume(fst[s + 1] + nx[s] <= N);

    /* the 2*NS allocation steps in a symbolic order */
    for (e = 0; e < 2 * NS; ++e) {
        s = vh_int_in(0, NS - 1);
        vh_assume(stage[s] < 2);
        if (stage[s] == 0) {
            vh_assume(inflight < NWORK);
            ++inflight;
            num[s] = NewNsuper(0, &sh, &Glu.nsuper);
            vh_assert(num[s] >= 0 && num[s] < N, "supernode number in range");
            xsup[num[s]] = fst[s]; xsup_end[num[s]] = fst[s + 1];
            for (j = 0; j < N; ++j) if (j >= fst[s] && j < fst[s + 1]) supno[j] = num[s];
        } else {
            /* rows in ORIGINAL numbering: the pre-images under perm_r of fst..fst+w-1, then of the next nx rows */
            len[s] = fst[s + 1] - fst[s] + nx[s];
            Glu_alloc(0, fst[s], 2 * len[s], LSUB, &off[s], &sh);
            vh_assert(off[s] >= 0 && off[s] + 2 * len[s] <= LMAX, "subscript block inside the array");
            xlsub[fst[s]] = off[s];
            for (k = 0; k < N; ++k) if (k < len[s]) {
                int target = fst[s] + k, r;
                for (r = 0; r < N; ++r) if (perm_r[r] == target) { lsub[off[s] + k] = r; lsub[off[s] + len[s] + k] = r; }
                want[s][k] = target;
            }
            xlsub_end[fst[s]] = off[s] + len[s];
            xprune[fst[s + 1] - 1] = off[s] + 2 * len[s];
            --inflight;
        }
        ++stage[s];
    }
    for (s = 0; s < NS; ++s) vh_assume(stage[s] == 2);
    /* value storage: sequential, as with one relaxed supernode after the other */
    for (s = 0; s < NS; ++s)
        for (j = 0; j < N; ++j) if (j >= fst[s] && j < fst[s + 1]) { xlusup[j] = nextlu; nextlu += len[s]; xlusup_end[j] = nextlu; xusub[j] = 0; xusub_end[j] = 0; }

    /* what pdgstrf_thread_finalize does */
    supno[N] = Glu.nsuper;
    countnz(N, xprune, &nnzL, &nnzU, &Glu);
    fixupL(N, perm_r, &Glu);
    dCreate_SuperNode_Permuted(&L, N, N, nnzL, lusup, xlusup, xlusup_end, lsub, xlsub, xlsub_end, supno, xsup, xsup_end,
                               SLU_SCP, SLU_D, SLU_TRLU);
    {
        SCPformat *Ls = (SCPformat *)L.Store;
        int cnt = 0, s2;
        vh_assert(Ls->nsuper == NS - 1, "number of supernodes");
        for (s = 0; s < NS; ++s) {
            int f = fst[s], b = Ls->rowind_colbeg[f], en = Ls->rowind_colend[f];
            vh_assert(Ls->sup_to_colbeg[num[s]] == f && Ls->sup_to_colend[num[s]] == fst[s + 1], "supernode <-> column maps");
            vh_assert(b >= 0 && en - b == len[s] && en <= LMAX, "row list of each supernode keeps its length, inside the array");
            for (k = 0; k < N; ++k) if (k < len[s])
                vh_assert(Ls->rowind[b + k] == want[s][k], "row list = own columns in order, then the larger rows (in Pr*A numbering)");
            for (s2 = 0; s2 < s; ++s2) {
                int b2 = Ls->rowind_colbeg[fst[s2]], e2 = Ls->rowind_colend[fst[s2]];
                vh_assert(en <= b2 || e2 <= b, "row-subscript extents of different supernodes do not overlap");
            }
            for (j = f; j < fst[s + 1]; ++j) cnt += len[s] - (j - f);
        }
        vh_assert(Ls->nnz == cnt && nnzL == cnt, "nnz(L) equals the counted entries");
    }
    free(L.Store);
    VH_WITNESS();
    return 0;
}
