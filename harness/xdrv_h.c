/* xdrv_h.c -- C07 (wiring), C08(iv), C14 (driver reaction), C12 (info = n+1): the REAL expert
 * driver p?gssvx with its callees replaced by recording contract stubs.  E1, bit-precise.
 * The whole option record is symbolic (legal values): trans x storage x fact x equed, nprocs,
 * refact/usepr, lwork in {0,-1}, the outcome of the factorization (0, singular k, memory), of the
 * equilibration (flag, zero row) and of the condition estimate (rcond vs eps).
 * Checked against the table derived from  A_s = diag(R)^a * A * diag(C)^b  and the header comment.
 */
#include "slu_mt_ddefs.h"
#include "vh.h"
int vh_log_i; double vh_log_d;
#define VH_OWN_PTHREAD_CREATE
#include "env_stubs.h"
#ifndef NN
#define NN 2
#endif
#ifndef XD_FACT
#define XD_FACT 0
#endif
#ifndef XD_NR
#define XD_NR 0
#endif
#ifndef XD_NRHS
#define XD_NRHS 1
#endif
/* with two right-hand sides B and X get different leading dimensions and padding rows (sentinels) */
#define LDB (NN + (XD_NRHS > 1 ? 1 : 0))
#define LDX (NN + (XD_NRHS > 1 ? 2 : 0))
#define EPS 1.1102230246251565e-16
int_t sp_ienv(int_t i) { return 1; }
static int live;
void *vh_malloc(size_t s) { ++live; return malloc(s); }
void vh_free(void *p) { if (p) --live; free(p); }
int xerbla_(char *s, int *i) { vh_assert(0, "xerbla_ called on valid arguments"); return 0; }
double dlamch_(char *c) { return (*c == 'E' || *c == 'e') ? EPS : 2.2250738585072014e-308; }

/* ---- recording stubs ---- */
static int c_equ, c_laq, c_order, c_fact, c_growth, c_langs, c_con, c_solve, c_rfs, c_query, seq, s_fact, s_solve, s_rfs, s_order;
static int_t growth_ncols; static char langs_norm, con_norm; static trans_t solve_trans, rfs_trans; static equed_t rfs_equed, laq_out;
static SuperMatrix *fact_A, *langs_A, *rfs_A; static int_t fact_info, equ_info; static double con_rcond;
static SuperMatrix *solve_B; static double *Xv; static int_t g_ldx;
void StatAlloc(const int_t n, const int_t p, const int_t w, const int_t r, Gstat_t *G) { static procstat_t ps[4]; static double ut[NPHASES]; static flops_t ops[NPHASES]; G->procstat = ps; G->utime = ut; G->ops = ops; }
void StatInit(const int_t n, const int_t p, Gstat_t *G) {}
void PrintStat(Gstat_t *G) {}
void StatFree(Gstat_t *G) {}
void dgsequ(SuperMatrix *A, double *r, double *c, double *rowcnd, double *colcnd, double *amax, int_t *info)
{ int i; ++c_equ; for (i = 0; i < NN; ++i) { r[i] = 2.0; c[i] = 4.0; } *rowcnd = 0.5; *colcnd = 0.5; *amax = 1.0; *info = equ_info; }
void dlaqgs(SuperMatrix *A, double *r, double *c, double rowcnd, double colcnd, double amax, equed_t *equed) { ++c_laq; *equed = laq_out; }
void sp_colorder(SuperMatrix *A, int_t *perm_c, superlumt_options_t *o, SuperMatrix *AC) { ++c_order; s_order = ++seq; AC->Store = vh_malloc(sizeof(NCPformat)); ((NCPformat *)AC->Store)->colbeg = 0; ((NCPformat *)AC->Store)->colend = 0; }
void Destroy_CompCol_Permuted(SuperMatrix *A) { vh_free(A->Store); }
void pdgstrf(superlumt_options_t *o, SuperMatrix *A, int_t *perm_r, SuperMatrix *L, SuperMatrix *U, Gstat_t *G, int_t *info)
{ static int lstore, ustore; ++c_fact; s_fact = ++seq; fact_A = A; *info = fact_info;
  if (fact_info <= NN) { L->Store = &lstore; U->Store = &ustore; } /* factors exist unless the initial allocation failed */ }
double dPivotGrowth(int_t ncols, SuperMatrix *A, int_t *perm_c, SuperMatrix *L, SuperMatrix *U) { ++c_growth; growth_ncols = ncols; return 0.5; }
double dlangs(char *norm, SuperMatrix *A) { ++c_langs; langs_norm = *norm; langs_A = A; return 1.0; }
void dgscon(char *norm, SuperMatrix *L, SuperMatrix *U, double anorm, double *rcond, int_t *info) { ++c_con; con_norm = *norm; *rcond = con_rcond; *info = 0; }
void dgstrs(trans_t trans, SuperMatrix *L, SuperMatrix *U, int_t *perm_r, int_t *perm_c, SuperMatrix *B, Gstat_t *G, int_t *info)
{ int i; ++c_solve; s_solve = ++seq; solve_trans = trans; solve_B = B; { int jj; for (jj = 0; jj < XD_NRHS; ++jj) for (i = 0; i < NN; ++i) Xv[i + jj * LDX] = 16.0 + 8.0 * i + 64.0 * jj; } *info = 0; }
void dgsrfs(trans_t trans, SuperMatrix *A, SuperMatrix *L, SuperMatrix *U, int_t *perm_r, int_t *perm_c, equed_t equed, double *R, double *C,
            SuperMatrix *B, SuperMatrix *X, double *ferr, double *berr, Gstat_t *G, int_t *info)
{ ++c_rfs; s_rfs = ++seq; rfs_trans = trans; rfs_A = A; rfs_equed = equed; *info = 0; }
int_t superlu_dQuerySpace(int_t P, SuperMatrix *L, SuperMatrix *U, int_t w, superlu_memusage_t *mu)
{ ++c_query; vh_assert(L->Store != 0 && U->Store != 0, "the factors are not inspected after a failed allocation"); return 0; }

VH_MAIN
{
    static SuperMatrix A, L, U, B, X; static NCformat ast; static DNformat bst, xst;
    static double aval[4], bval[LDB * XD_NRHS], xval[LDX * XD_NRHS], b0[LDB * XD_NRHS], R[NN], C[NN], ferr[XD_NRHS], berr[XD_NRHS], rpg, rcond;
    static int_t rowind[4], colptr[NN + 1], perm_c[NN], perm_r[NN];
    static superlumt_options_t opt; static superlu_memusage_t mu;
    int_t info = 99, nprocs = vh_int_in(1, 2);
    equed_t equed = (equed_t)vh_int_in(0, 3), equed0;
    int i, nr = XD_NR, rowequ, colequ, notran_eff, expect_fact;
    trans_t want_trant;

    opt.fact = (fact_t)XD_FACT; opt.trans = (trans_t)vh_int_in(0, 2); opt.refact = (yes_no_t)vh_int_in(0, 1); opt.usepr = (yes_no_t)vh_int_in(0, 1);
    opt.lwork = vh_int_in(-1, 0); opt.nprocs = nprocs; opt.panel_size = 1; opt.relax = 1;
    vh_assume(opt.fact != FACTORED || opt.lwork == 0);
    ast.nnz = 0; ast.nzval = aval; ast.rowind = rowind; ast.colptr = colptr;
    A.Stype = nr ? SLU_NR : SLU_NC; A.Dtype = SLU_D; A.Mtype = SLU_GE; A.nrow = NN; A.ncol = NN; A.Store = &ast;
    bst.lda = LDB; bst.nzval = bval; xst.lda = LDX; xst.nzval = xval; Xv = xval; g_ldx = LDX;
    B.Stype = SLU_DN; B.Dtype = SLU_D; B.Mtype = SLU_GE; B.nrow = NN; B.ncol = XD_NRHS; B.Store = &bst; X = B; X.Store = &xst;
    for (i = 0; i < NN; ++i) { R[i] = 2.0; C[i] = 4.0; }
    for (i = 0; i < LDB * XD_NRHS; ++i) { bval[i] = 3.0 + 2.0 * i; b0[i] = bval[i]; }
    for (i = 0; i < LDX * XD_NRHS; ++i) xval[i] = -1.0;
    /* outcomes of the callees */
    equ_info = vh_int_in(0, 1) ? 0 : 1;
    laq_out = (equed_t)vh_int_in(0, 3);
#ifdef XD_MEMFAIL
    fact_info = NN + 40;       /* the factorization could not allocate its storage */
#else
    { int k = vh_int_in(0, 2); fact_info = (k == 0) ? 0 : (k == 1) ? 1 : NN; }
#endif
    con_rcond = vh_int_in(0, 1) ? 0.25 : EPS / 4;
    equed0 = equed;

    pdgssvx(nprocs, &opt, &A, perm_c, perm_r, &equed, R, C, &L, &U, &B, &X, &rpg, &rcond, ferr, berr, &mu, &info);

    expect_fact = (opt.fact != FACTORED);
    if (opt.fact == DOFACT) { rowequ = colequ = 0; vh_assert(equed == NOEQUIL, "DOFACT: no equilibration is reported"); }
    else if (opt.fact == EQUILIBRATE) {
        vh_assert(c_equ == 1, "EQUILIBRATE: scale factors computed once");
        if (equ_info == 0) { vh_assert(c_laq == 1 && equed == laq_out, "EQUILIBRATE: the reported flag is what the apply step did"); }
        else vh_assert(c_laq == 0 && equed == NOEQUIL, "zero row/column: matrix is not scaled and the flag says so");
        rowequ = (equed == ROW || equed == BOTH); colequ = (equed == COL || equed == BOTH);
    } else { vh_assert(equed == equed0 && c_equ == 0 && c_laq == 0, "FACTORED: the caller's flag is used as given"); rowequ = (equed == ROW || equed == BOTH); colequ = (equed == COL || equed == BOTH); }
    notran_eff = nr ? (opt.trans != NOTRANS) : (opt.trans == NOTRANS);   /* sense in which the factored column-wise matrix is used */
    want_trant = nr ? (opt.trans == NOTRANS ? TRANS : NOTRANS) : opt.trans;
    vh_assert(c_fact == expect_fact && c_order == expect_fact, "factorization (after the column preprocessing) exactly when factors are not supplied");
    if (expect_fact) vh_assert(s_order < s_fact, "preprocessing precedes the factorization");
    /* right-hand side scaled by the factor that matches the transpose sense */
    for (i = 0; i < NN; ++i) {
        int jj;
        for (jj = 0; jj < XD_NRHS; ++jj) {
            double want = b0[i + jj * LDB];
            if (notran_eff && rowequ) want = b0[i + jj * LDB] * R[i];
            if (!notran_eff && colequ) want = b0[i + jj * LDB] * C[i];
            vh_assert(bval[i + jj * LDB] == want, "B is scaled by R (no-transpose sense) or C (transpose sense) exactly when the flag says so");
        }
    }
    if (expect_fact && opt.lwork == -1) {
        vh_assert(c_solve == 0 && c_rfs == 0 && c_con == 0, "workspace query performs no solve");
    } else if (expect_fact && fact_info > NN) {
        vh_assert(info == fact_info, "allocation failure of the factorization is reported unchanged");
        vh_assert(c_solve == 0 && c_rfs == 0 && c_con == 0 && c_growth == 0, "nothing is computed from factors that do not exist");
        vh_assert(c_query == 0 || (L.Store != 0 && U.Store != 0), "the factors are not inspected after a failed allocation");
        for (i = 0; i < NN; ++i) vh_assert(xval[i] == -1.0, "X untouched");
    } else if (expect_fact && fact_info > 0) {
        vh_assert(info == fact_info, "singularity position is reported unchanged");
        vh_assert(c_growth == 1 && growth_ncols == fact_info, "pivot growth of the leading columns only");
        vh_assert(c_solve == 0 && c_rfs == 0 && c_con == 0, "no solve, refinement or condition estimate for a singular matrix");
        for (i = 0; i < NN; ++i) vh_assert(xval[i] == -1.0, "X untouched");
    } else {
        vh_assert(c_growth == 1 && growth_ncols == NN, "pivot growth over all columns");
        vh_assert(c_langs == 1 && c_con == 1 && langs_norm == con_norm, "one norm, one condition estimate, same norm");
        vh_assert(langs_norm == (notran_eff ? '1' : 'I'), "1-norm for the no-transpose sense, infinity-norm for the transpose sense");
        vh_assert(c_solve == 1 && c_rfs == 1 && s_solve < s_rfs, "one solve followed by one refinement");
        vh_assert(solve_B == &X, "the solve works on X (B keeps the scaled right-hand side)");
        vh_assert(solve_trans == want_trant && rfs_trans == want_trant, "transpose flag: the user's for column-wise A, flipped for row-wise A");
        vh_assert(solve_trans == NOTRANS || solve_trans == TRANS || solve_trans == CONJ, "transpose flag handed to the solve is one it accepts");
        vh_assert(rfs_equed == equed, "refinement is told how the system was equilibrated");
        for (i = 0; i < NN; ++i) {
            int jj;
            for (jj = 0; jj < XD_NRHS; ++jj) {
                double want = 16.0 + 8.0 * i + 64.0 * jj;
                if (notran_eff && colequ) want = want * C[i];
                if (!notran_eff && rowequ) want = want * R[i];
                vh_assert(xval[i + jj * LDX] == want, "X is mapped back by C (no-transpose sense) or R (transpose sense)");
            }
        }
        vh_assert(info == ((con_rcond < EPS) ? NN + 1 : 0), "info = n+1 exactly when rcond is below machine epsilon");
        vh_assert(rcond == con_rcond, "rcond returned");
        vh_assert(live == 0, "temporary column-wise wrapper and the permuted copy are released");
    }
    for (i = 0; i < NN; ++i) vh_assert(R[i] == 2.0 && C[i] == 4.0, "scale vectors unchanged by the driver");
    { int jj; for (jj = 0; jj < XD_NRHS; ++jj) { for (i = NN; i < LDB; ++i) vh_assert(bval[i + jj * LDB] == b0[i + jj * LDB], "padding rows of B untouched"); for (i = NN; i < LDX; ++i) vh_assert(xval[i + jj * LDX] == -1.0, "padding rows of X untouched"); } }
    if (expect_fact && opt.lwork != -1 && fact_info <= NN) vh_assert(c_query == 1, "memory usage is reported whenever the factorization produced factors");
    VH_WITNESS();
    return 0;
}
