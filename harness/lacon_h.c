/* lacon_h.c -- C18: the norm estimator dlacon_ keeps its loop state in function-static variables between the
 * reverse-communication calls of ONE estimate.  "No hidden state" = a new estimate (entered with kase = 0) does not
 * depend on what those variables held before.  Self-composition: dlacon.c is compiled twice (dlacon_A, dlacon_B);
 * copy A is compiled with -Dstatic=extern and its seven function statics renamed to vhA_* (same lifetime, same uses, but
 * the harness can set them: ARBITRARY values, logged, so a counterexample is replayable natively); copy B is compiled
 * as it stands and starts from the loader's zeros; both are
 * driven through one whole estimate with the SAME arbitrary replies of the caller (x overwritten by any vector at
 * every step).  Every output of every step (kase, x, and finally est, v) must agree.  E2 (Real).
 */
#ifdef VH_SINGLE
#include "slu_mt_sdefs.h"
#define VH_LREAL float
#else
#include "slu_mt_ddefs.h"
#define VH_LREAL double
#endif
#include "vh.h"
int vh_log_i; double vh_log_d;
#include "env_stubs.h"
#ifndef N
#define N 2
#endif
#ifndef STEPS
#define STEPS 14     /* 1 + 1 + 2*5 + 2: first step, first product, at most ITMAX = 5 rounds of two products, alternative estimate */
#endif
#ifdef SCRIPT
/* Scripted replies of the caller (n = 2), chosen so that the estimate goes through the main loop: row s is the vector
 * the caller puts into x after step s.  Replies with index >= FREE_FROM are arbitrary instead.
 *   SCRIPT 1: one extra Hager round, then a repeated sign vector ends the loop.
 *   SCRIPT 2: the estimate grows and the sign vector changes in every round: the loop runs to ITMAX = 5 and is cut there.
 *   SCRIPT 3: cycling test (estimate does not grow) ends the loop in the second round.
 */
#if SCRIPT == 1
static const int vh_script[][2] = {{1,1},{2,1},{3,-1},{1,5},{2,-4},{1,1},{1,1},{1,1},{1,1},{1,1},{1,1},{1,1},{1,1},{1,1}};
#elif SCRIPT == 2
static const int vh_script[][2] = {{1,1},{2,1},{3,-1},{1,5},{5,1},{5,1},{7,-1},{1,5},{9,1},{5,1},{1,1},{1,1},{1,1},{1,1}};
#else
static const int vh_script[][2] = {{1,1},{2,1},{3,-1},{1,5},{1,1},{9,9},{1,1},{1,1},{1,1},{1,1},{1,1},{1,1},{1,1},{1,1}};
#endif
#ifndef FREE_FROM
#define FREE_FROM 99
#endif
#endif
extern int_t dlacon_A(int_t *, VH_LREAL *, VH_LREAL *, int_t *, VH_LREAL *, int_t *);   /* dlacon_ or (VH_SINGLE) slacon_ */
extern int_t dlacon_B(int_t *, VH_LREAL *, VH_LREAL *, int_t *, VH_LREAL *, int_t *);

int_t vhA_iter, vhA_jump, vhA_jlast, vhA_i, vhA_j; VH_LREAL vhA_altsgn, vhA_estold;   /* the statics of copy A */

VH_MAIN
{
    static VH_LREAL vA[N], xA[N], vB[N], xB[N]; static int_t isA[N], isB[N];
    VH_LREAL estA = 0, estB = 0; int_t kA = 0, kB = 0, n = N; int s, i, done = 0;
    vhA_iter = vh_int(); vhA_jump = vh_int(); vhA_jlast = vh_int(); vhA_i = vh_int(); vhA_j = vh_int();   /* whatever earlier estimates left */
    vhA_altsgn = (VH_LREAL)vh_double(); vhA_estold = (VH_LREAL)vh_double();
    for (s = 0; s < STEPS && !done; ++s) {
        dlacon_A(&n, vA, xA, isA, &estA, &kA);
        dlacon_B(&n, vB, xB, isB, &estB, &kB);
        vh_assert(kA == kB, "same request to the caller whatever the estimator's leftover state");
        for (i = 0; i < N; ++i) vh_assert(xA[i] == xB[i], "same vector handed to the caller whatever the leftover state");
        if (kA == 0 && kB == 0) done = 1;
        else for (i = 0; i < N; ++i) { VH_LREAL r = (VH_LREAL)vh_double();   /* any reply of the caller */
#ifdef SCRIPT
            if (s < FREE_FROM) r = (VH_LREAL)vh_script[s][i];   /* assigned, not assumed: the symbolic executor then folds the scripted prefix */
#ifdef WITNESS
            else r = (VH_LREAL)vh_script[s][i];   /* witness twin: the whole script */
#endif
#elif defined(WITNESS) && defined(WIT_PIN)
            vh_assume(r == (double)(i + 1));   /* witness twin only: one concrete run */
#endif
            xA[i] = r; xB[i] = r; }
    }
    vh_assert(done, "the estimate ends within the documented number of steps");
    vh_assert(estA == estB, "same estimate whatever the leftover state");
    for (i = 0; i < N; ++i) vh_assert(vA[i] == vB[i], "same final vector whatever the leftover state");
    VH_WITNESS();
    return 0;
}
