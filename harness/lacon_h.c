/* lacon_h.c -- C18: the norm estimator dlacon_ keeps its loop state in function-static variables between the
 * reverse-communication calls of ONE estimate.  "No hidden state" = a new estimate (entered with kase = 0) does not
 * depend on what those variables held before.  Self-composition: dlacon.c is compiled twice (dlacon_A, dlacon_B);
 * goto-instrument gives the statics of copy A ARBITRARY initial values, copy B starts from the loader's zeros; both are
 * driven through one whole estimate with the SAME arbitrary replies of the caller (x overwritten by any vector at
 * every step).  Every output of every step (kase, x, and finally est, v) must agree.  E2 (Real).
 */
#include "slu_mt_ddefs.h"
#include "vh.h"
int vh_log_i; double vh_log_d;
#include "env_stubs.h"
#ifndef N
#define N 2
#endif
#ifndef STEPS
#define STEPS 14     /* 1 + 1 + 2*5 + 2: first step, first product, at most ITMAX = 5 rounds of two products, alternative estimate */
#endif
extern int_t dlacon_A(int_t *, double *, double *, int_t *, double *, int_t *);
extern int_t dlacon_B(int_t *, double *, double *, int_t *, double *, int_t *);

VH_MAIN
{
    static double vA[N], xA[N], vB[N], xB[N]; static int_t isA[N], isB[N];
    double estA = 0, estB = 0; int_t kA = 0, kB = 0, n = N; int s, i, done = 0;
    for (s = 0; s < STEPS && !done; ++s) {
        dlacon_A(&n, vA, xA, isA, &estA, &kA);
        dlacon_B(&n, vB, xB, isB, &estB, &kB);
        vh_assert(kA == kB, "same request to the caller whatever the estimator's leftover state");
        for (i = 0; i < N; ++i) vh_assert(xA[i] == xB[i], "same vector handed to the caller whatever the leftover state");
        if (kA == 0 && kB == 0) done = 1;
        else for (i = 0; i < N; ++i) { double r = vh_double();   /* any reply of the caller */
#if defined(WITNESS) && defined(WIT_PIN)
            vh_assume(r == (double)(i + 1));   /* witness twin only: one concrete run */
#endif
            xA[i] = r; xB[i] = r; }
    }
    vh_assert(done, "the estimate ends within the documented number of steps");
    vh_assert(estA == estB, "same estimate whatever the leftover state");
    for (i = 0; i < N; ++i) vh_assert(vA[i] == vB[i], "same final vector whatever the leftover state");
    VH_WITNESS();
    return 0;
}
