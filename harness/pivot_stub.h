/* pivot_stub.h -- forced-pivot replacement of p?gstrf_pivotL for the whole-factorization
 * queries.  The real pivotL is verified on its own (C02(b)/C06 unit queries) against the
 * specification "choose a row p by the threshold policy, then do exactly what this stub
 * does for row p"; here the *choice* is taken out of the solver's hands so that the
 * shapes of all later columns stay concrete (DESIGN 2.3): the pivot of column jcol is
 * the first row, in the query's preference order VH_PIVPREF, among the candidate rows of
 * the column that are structurally non-zero.  Structural non-zero-ness is tracked in a
 * concrete boolean matrix vh_S updated by symbolic elimination.  Iterating all n!
 * preference orders covers every pivot sequence that any numerical values can produce.
 *
 * Everything else (recording the permutation, interchanging subscripts and the whole
 * supernode row, the division) is a transcription of the real routine's second half.
 */
#ifndef VH_PIVOT_STUB_H
#define VH_PIVOT_STUB_H
#include "vh.h"
static const int vh_pivpref[N] = VH_PIVPREF;
#ifdef VH_PIVPREF2   /* a second preference order, used once vh_pivot_phase is set (re-factorization with different pivots) */
static const int vh_pivpref2[N] = VH_PIVPREF2;
int vh_pivot_phase;
#define VH_PREF(k) (vh_pivot_phase ? vh_pivpref2[k] : vh_pivpref[k])
#else
#define VH_PREF(k) vh_pivpref[k]
#endif
static int vh_S[N][N];       /* vh_S[i][j]: entry (row i, AC column j) structurally non-zero */
static int vh_S_ready;
static int vh_rowdone[N];
int vh_pivot_calls, vh_singular_col = -1;
static void vh_pivot_reset(void) { int i; vh_S_ready = 0; for (i = 0; i < N; ++i) vh_rowdone[i] = 0; vh_pivot_calls = 0; vh_singular_col = -1; }
extern int vh_fpat_at(int i, int j); /* pattern of the matrix being factored: row i, ORIGINAL column j */

int_t VH_PIVOTL(const int_t pnum, const int_t jcol, const VH_REAL u, yes_no_t *usepr, int_t *perm_r,
                int_t *inv_perm_r, int_t *inv_perm_c, int_t *pivrow, GlobalLU_t *Glu, Gstat_t *Gstat)
{
    int_t fsupc = Glu->xsup[Glu->supno[jcol]];
    int_t nsupc = jcol - fsupc;
    int_t lptr = Glu->xlsub[fsupc];
    int_t nsupr = Glu->xlsub_end[fsupc] - lptr;
    VH_REAL *lusup = (VH_REAL *)Glu->lusup;
    VH_REAL *lu_sup_ptr = &lusup[Glu->xlusup[fsupc]];
    VH_REAL *lu_col_ptr = &lusup[Glu->xlusup[jcol]];
    int_t *lsub_ptr = &Glu->lsub[lptr];
    int_t isub, icol, k, itemp, pivptr = -1, r, i;
    VH_REAL temp;
    ++vh_pivot_calls;
#ifdef VH_PIVOT_YIELD
    VH_PIVOT_YIELD(pnum, jcol);
#endif
    if (!vh_S_ready) { /* column j of A*Pc is original column c with perm_c[c]==j; the library's
                          inv_perm_c[] is indexed the other way round, so search it */
        int j, c;
        for (j = 0; j < N; ++j) for (c = 0; c < N; ++c) if (vh_permc_final[c] == j)
            for (i = 0; i < N; ++i) vh_S[i][j] = vh_fpat_at(i, c);
        vh_S_ready = 1;
    }
#ifdef VH_DIAG_PIVOT
    /* symmetric mode with threshold 0: the original diagonal entry is the pivot (C16) */
    for (isub = nsupc; isub < nsupr; ++isub) if (lsub_ptr[isub] == inv_perm_c[jcol]) pivptr = isub;
    vh_assert(pivptr >= 0 && vh_S[inv_perm_c[jcol]][jcol], "the diagonal row is a structurally non-zero candidate of its column");
#endif
    for (k = 0; k < N && pivptr < 0; ++k) {
        r = VH_PREF(k);
        if (vh_rowdone[r] || !vh_S[r][jcol]) continue;
        for (isub = nsupc; isub < nsupr; ++isub) if (lsub_ptr[isub] == r) pivptr = isub;
        vh_assert(pivptr >= 0, "every structurally non-zero unpivoted row of the column is a candidate in the supernode row list");
    }
    if (pivptr < 0) { /* structurally empty column: behave like the real routine on all-zero */
        if (vh_singular_col < 0) vh_singular_col = jcol;
#ifdef VH_EXPECT_NONSINGULAR
        vh_assume(0);
#endif
        *pivrow = lsub_ptr[nsupc];
        perm_r[*pivrow] = jcol; inv_perm_r[jcol] = *pivrow; *usepr = NO;
        vh_rowdone[*pivrow] = 1;
        return jcol + 1;
    }
    vh_assume(lu_col_ptr[pivptr] != 0);   /* generic values: the chosen candidate is numerically non-zero */
    *pivrow = lsub_ptr[pivptr];
    perm_r[*pivrow] = jcol;
    inv_perm_r[jcol] = *pivrow;
    if (pivptr != nsupc) {
        itemp = lsub_ptr[pivptr]; lsub_ptr[pivptr] = lsub_ptr[nsupc]; lsub_ptr[nsupc] = itemp;
        k = 0;
        for (icol = 0; icol <= nsupc; ++icol, k += nsupr) {
            itemp = pivptr + k;
            temp = lu_sup_ptr[itemp]; lu_sup_ptr[itemp] = lu_sup_ptr[nsupc + k]; lu_sup_ptr[nsupc + k] = temp;
        }
    }
    temp = 1 / lu_col_ptr[nsupc];
    for (k = nsupc + 1; k < nsupr; k++) lu_col_ptr[k] *= temp;
    /* symbolic elimination on the structure */
    r = *pivrow; vh_rowdone[r] = 1;
    for (i = 0; i < N; ++i) if (!vh_rowdone[i] && vh_S[i][jcol])
        for (k = jcol + 1; k < N; ++k) if (vh_S[r][k]) vh_S[i][k] = 1;
    return 0;
}
#endif
