/* fullx_h.c -- whole EXPERT driver pdgssvx on a concrete pattern with symbolic values (E2, Real):
 * C07 (numeric half: op(A) X = B for every trans / storage), C08 (re-factorization and factor reuse as a
 * call sequence), C16 (symmetric mode, diagonal pivots, Cholesky-based slot bound through hook H1).
 *
 * Real code: pdgssvx, sp_colorder (column or symmetric etree, qrnzcnt / cholnzcnt), pdgstrf and everything
 * under it (as full_h.c), dPivotGrowth, dlangs, dgstrs (behind the factor/solve cut), pdutil/util helpers.
 * Stubs: dgscon (rcond symbolic >= eps), dgsrfs (leaves X: refinement does not change an exact solution),
 * allocator entry points (typed), forced pivots, synchronous workers.
 * SCEN: 0 one call (fact = DOFACT), 1 factor then re-factor with new values (refact = YES, usepr per VH_USEPR)
 *       then solve with the supplied factors (fact = FACTORED, new B).
 */
#include "slu_mt_ddefs.h"
#include "vh.h"
#ifndef N
#define N 3
#endif
#ifndef NRHS
#define NRHS 1
#endif
#ifndef NPROCS
#define NPROCS 1
#endif
#ifndef VH_W
#define VH_W 1
#endif
#ifndef VH_RELAX
#define VH_RELAX 1
#endif
#ifndef VH_MAXSUP
#define VH_MAXSUP 3
#endif
#ifndef VH_ROWBLK
#define VH_ROWBLK 2
#endif
#ifndef VH_COLBLK
#define VH_COLBLK 2
#endif
#define VH_FILL6 (4 * N * N)
#define VH_FILL7 (N * N)
#define VH_FILL8 (4 * N * N)
#ifndef VH_TRANS
#define VH_TRANS 0
#endif
#ifndef SCEN
#define SCEN 0
#endif
#ifndef VH_SYM
#define VH_SYM 0
#endif
#ifndef VH_USEPR
#define VH_USEPR 0
#endif
#define VH_REAL double
#define VH_MEMINIT pdgstrf_MemInit
#define VH_WORKINIT pdgstrf_WorkInit
#define VH_WORKFREE pdgstrf_WorkFree
#define VH_EXPANDERS dexpanders
#define VH_PIVOTL pdgstrf_pivotL
#define VH_EXPECT_NONSINGULAR
int vh_log_i; double vh_log_d;
#define VH_OWN_LUSUP
#ifndef VH_ABORT_OK
#define VH_ABORT_IS_FAILURE
#endif
#include "env_stubs.h"
#include "mem_stubs.h"
int_t vh_permc_final[N] = VH_PERMC;
int vh_pat_at(int i, int j) { return (int)(((unsigned long)PAT >> (i + j * N)) & 1UL); }
/* the arrays are always laid out column-wise from PAT; for VH_NR the very same arrays are handed over as the
   row-wise storage of A = (that matrix)^T, so the column-wise matrix that gets factored has pattern PAT either way */
int vh_fpat_at(int i, int j) { return vh_pat_at(i, j); }
#include "pivot_stub.h"
#include "refblas.h"
int_t sp_ienv(int_t ispec)
{
    switch (ispec) { case 1: return VH_W; case 2: return VH_RELAX; case 3: return VH_MAXSUP; case 4: return VH_ROWBLK;
                     case 5: return VH_COLBLK; case 6: return VH_FILL6; case 7: return VH_FILL7; case 8: return VH_FILL8; }
    return -1;
}
int xerbla_(char *s, int *i) { vh_assert(0, "xerbla_ called on valid arguments"); return 0; }
double dlamch_(char *c) { return (*c == 'E' || *c == 'e') ? 1.1102230246251565e-16 : 2.2250738585072014e-308; }
#include "wf_lu.h"

extern void dgstrs(trans_t, SuperMatrix *, SuperMatrix *, int_t *, int_t *, SuperMatrix *, Gstat_t *, int_t *);
static int c_con, c_rfs;
void dgscon(char *norm, SuperMatrix *L, SuperMatrix *U, double anorm, double *rcond, int_t *info) { ++c_con; *rcond = 0.5; *info = 0; }
void dgsrfs(trans_t trans, SuperMatrix *A, SuperMatrix *L, SuperMatrix *U, int_t *perm_r, int_t *perm_c, equed_t equed, double *R, double *C,
            SuperMatrix *B, SuperMatrix *X, double *ferr, double *berr, Gstat_t *G, int_t *info) { ++c_rfs; *info = 0; }

static double (*vh_Fd)[N];
static double vh_L2[N][N], vh_U2[N][N];
static int vh_cut_calls, vh_check_factors = 1; static trans_t vh_cut_trans;
void vh_dgstrs_cut(trans_t trans, SuperMatrix *L, SuperMatrix *U, int_t *perm_r, int_t *perm_c, SuperMatrix *B, Gstat_t *Gstat, int_t *info)
{
    int i, j, k;
    ++vh_cut_calls; vh_cut_trans = trans;
    wf_lu_check(N, L, U, perm_r, perm_c);
    if (vh_check_factors) eq_lu_check(N, L, U, perm_r, perm_c, vh_Fd);
    {   /* continue with fresh symbolic factor values of the same structure (compositional cut, as in full_h.c) */
        SCPformat *Ls = (SCPformat *)L->Store; NCPformat *Us = (NCPformat *)U->Store;
        double *lv = (double *)Ls->nzval, *uv = (double *)Us->nzval;
#if SCEN == 0
        for (j = 0; j < N; ++j) { for (k = Ls->nzval_colbeg[j]; k < Ls->nzval_colend[j]; ++k) lv[k] = vh_double(); for (k = Us->colbeg[j]; k < Us->colend[j]; ++k) uv[k] = vh_double(); }
#endif
        lu_expand(N, L, U);
        for (i = 0; i < N; ++i) vh_assume(vh_Ud[i][i] != 0);
        (void)lv; (void)uv;
    }
    for (i = 0; i < N; ++i) for (j = 0; j < N; ++j) { vh_L2[i][j] = vh_Ld[i][j]; vh_U2[i][j] = vh_Ud[i][j]; }
    dgstrs(trans, L, U, perm_r, perm_c, B, Gstat, info);
}

/* op(M) X = B with M = Pr^T L U Pc^T the factored matrix, in the triangular form that keeps one division per row */
static void check_solve(const int_t *perm_r, const int_t *perm_c, const double *x, const double *b0)
{
    double c[N], ref[N], xs[N]; int i, q;
    if (vh_cut_trans == NOTRANS) {
        for (i = 0; i < N; ++i) { c[perm_r[i]] = b0[i]; xs[perm_c[i]] = x[i]; }
        for (i = 0; i < N; ++i) { double t = c[i]; for (q = 0; q < i; ++q) t -= vh_L2[i][q] * ref[q]; ref[i] = t; }
        for (i = 0; i < N; ++i) { double s = 0; for (q = i; q < N; ++q) s += vh_U2[i][q] * xs[q];
            vh_assert_eq(s, ref[i], "U*(Pc^T X) == inv(L)*(Pr B): the factored matrix times X equals B"); }
    } else {
        for (i = 0; i < N; ++i) { c[perm_c[i]] = b0[i]; xs[perm_r[i]] = x[i]; }
        for (i = 0; i < N; ++i) { double t = c[i]; for (q = 0; q < i; ++q) t -= vh_U2[q][i] * ref[q]; ref[i] = t / vh_U2[i][i]; }
        for (i = 0; i < N; ++i) { double s = xs[i]; for (q = i + 1; q < N; ++q) s += vh_L2[q][i] * xs[q];
            vh_assert_eq(s, ref[i], "L^T*(Pr X) == inv(U^T)*(Pc^T B): the transposed factored matrix times X equals B"); }
    }
}

VH_MAIN
{
    static double aval[N * N], aval0[N * N], Fd[N][N], b[N], b0[N], x[N], R[N], C[N], ferr[NRHS], berr[NRHS], rpg, rcond;
    static int_t rowind[N * N], colptr[N + 1], perm_r[N], perm_r1[N], perm_c1[N];
    static superlumt_options_t opt; static superlu_memusage_t mu;
    int i, j, k, nnz = 0;
    SuperMatrix A, L, U, B, X; static NCformat ast; static DNformat bst, xst;
    int_t info = 77; equed_t equed = NOEQUIL;
    trans_t want;

    for (j = 0; j < N; ++j) { colptr[j] = nnz; for (i = 0; i < N; ++i) if (vh_pat_at(i, j)) { rowind[nnz] = i; aval[nnz] = vh_double(); aval0[nnz] = aval[nnz]; ++nnz; } }
    colptr[N] = nnz;
    /* the arrays describe A by columns (NC) or the same arrays are handed over as row-wise storage of A' (NR);
       Fd is always the column-wise matrix that gets factored */
    for (i = 0; i < N; ++i) for (j = 0; j < N; ++j) Fd[i][j] = 0;
    for (j = 0; j < N; ++j) for (k = colptr[j]; k < colptr[j + 1]; ++k) Fd[rowind[k]][j] = aval[k];
    vh_Fd = Fd;
    for (i = 0; i < N; ++i) { b[i] = vh_double(); b0[i] = b[i]; x[i] = 0; }
    ast.nnz = nnz; ast.nzval = aval; ast.rowind = rowind; ast.colptr = colptr;
#ifndef VH_NR
    A.Stype = SLU_NC;
#else
    A.Stype = SLU_NR;
#endif
    A.Dtype = SLU_D; A.Mtype = SLU_GE; A.nrow = N; A.ncol = N; A.Store = &ast;
    bst.lda = N; bst.nzval = b; xst.lda = N; xst.nzval = x;
    B.Stype = SLU_DN; B.Dtype = SLU_D; B.Mtype = SLU_GE; B.nrow = N; B.ncol = 1; B.Store = &bst; X = B; X.Store = &xst;
    opt.nprocs = NPROCS; opt.fact = DOFACT; opt.trans = (trans_t)VH_TRANS; opt.refact = NO; opt.panel_size = VH_W; opt.relax = VH_RELAX;
    opt.usepr = NO; opt.drop_tol = 0.0; opt.diag_pivot_thresh = VH_SYM ? 0.0 : 1.0; opt.SymmetricMode = VH_SYM ? YES : NO; opt.PrintStat = NO;
    opt.perm_c = vh_permc_final; opt.perm_r = perm_r; opt.work = 0; opt.lwork = 0;
    opt.etree = intMalloc(N); opt.colcnt_h = intMalloc(N); opt.part_super_h = intMalloc(N);

    pdgssvx(NPROCS, &opt, &A, vh_permc_final, perm_r, &equed, R, C, &L, &U, &B, &X, &rpg, &rcond, ferr, berr, &mu, &info);

    vh_assert(info == 0, "info == 0 (forced pivots non-zero, rcond above eps)");
    vh_assert(equed == NOEQUIL, "no equilibration requested, none reported");
    vh_assert(vh_cut_calls == 1 && c_con == 1 && c_rfs == 1, "one solve, one condition estimate, one refinement");
#ifndef VH_NR
    want = (trans_t)VH_TRANS;
#else
    want = (VH_TRANS == 0) ? TRANS : NOTRANS;
#endif
    vh_assert(vh_cut_trans == want, "the solve gets the user's transpose flag for column-wise A, the flipped one for row-wise A");
    for (k = 0; k < nnz; ++k) vh_assert_eq(aval[k], aval0[k], "A unchanged without equilibration");
    for (i = 0; i < N; ++i) vh_assert_eq(b[i], b0[i], "B unchanged without equilibration");
    check_solve(perm_r, vh_permc_final, x, b0);
#if VH_SYM
    for (i = 0; i < N; ++i) vh_assert(perm_r[i] == vh_permc_final[i], "symmetric mode with diagonal pivots: row permutation equals column permutation");
#endif
#if SCEN == 1
    {
        /* ---- re-factorization with new values, same pattern, same storage ---- */
        for (i = 0; i < N; ++i) { perm_r1[i] = perm_r[i]; perm_c1[i] = vh_permc_final[i]; }
        for (k = 0; k < nnz; ++k) { aval[k] = vh_double(); aval0[k] = aval[k]; }
        for (i = 0; i < N; ++i) for (j = 0; j < N; ++j) Fd[i][j] = 0;
        for (j = 0; j < N; ++j) for (k = colptr[j]; k < colptr[j + 1]; ++k) Fd[rowind[k]][j] = aval[k];
        for (i = 0; i < N; ++i) { b[i] = vh_double(); b0[i] = b[i]; }
        vh_pivot_reset(); vh_cut_calls = 0; c_con = 0; c_rfs = 0;
#ifdef VH_PIVPREF2
        vh_pivot_phase = 1;   /* the new values lead to a different pivot sequence: L's supernode partition may change */
#endif
        opt.refact = YES; opt.usepr = VH_USEPR ? YES : NO; opt.fact = DOFACT;
        pdgssvx(NPROCS, &opt, &A, vh_permc_final, perm_r, &equed, R, C, &L, &U, &B, &X, &rpg, &rcond, ferr, berr, &mu, &info);
        vh_assert(info == 0 && vh_cut_calls == 1, "re-factorization succeeds and solves once");
        for (i = 0; i < N; ++i) vh_assert(vh_permc_final[i] == perm_c1[i], "re-factorization keeps the column ordering");
#ifndef VH_PIVPREF2
        for (i = 0; i < N; ++i) vh_assert(perm_r[i] == perm_r1[i], "same pivots chosen again: row permutation returned unchanged");
#endif
        for (i = 0; i < N; ++i) perm_r1[i] = perm_r[i];
        check_solve(perm_r, vh_permc_final, x, b0);
        /* ---- solve with the supplied factors only ---- */
        {
            static double lcopy[4 * N * N], ucopy[N * N + N];
            SCPformat *Ls = (SCPformat *)L.Store; NCPformat *Us = (NCPformat *)U.Store;
            int nl = Ls->nzval_colend[N - 1] > 4 * N * N ? 4 * N * N : 0, kk;
            for (j = 0; j < N; ++j) for (kk = Ls->nzval_colbeg[j]; kk < Ls->nzval_colend[j]; ++kk) if (kk < 4 * N * N) lcopy[kk] = ((double *)Ls->nzval)[kk];
            for (j = 0; j < N; ++j) for (kk = Us->colbeg[j]; kk < Us->colend[j]; ++kk) if (kk < N * N + N) ucopy[kk] = ((double *)Us->nzval)[kk];
            for (i = 0; i < N; ++i) { b[i] = vh_double(); b0[i] = b[i]; }
            vh_cut_calls = 0; vh_check_factors = 1; opt.fact = FACTORED; opt.refact = NO;
            pdgssvx(NPROCS, &opt, &A, vh_permc_final, perm_r, &equed, R, C, &L, &U, &B, &X, &rpg, &rcond, ferr, berr, &mu, &info);
            vh_assert(info == 0 && vh_cut_calls == 1 && vh_pivot_calls == N, "factor reuse: one solve, no new factorization");
            check_solve(perm_r, vh_permc_final, x, b0);
            for (k = 0; k < nnz; ++k) vh_assert_eq(aval[k], aval0[k], "factor reuse leaves A unchanged");
            for (i = 0; i < N; ++i) vh_assert(perm_r[i] == perm_r1[i] && vh_permc_final[i] == perm_c1[i], "factor reuse leaves both permutations unchanged");
            for (j = 0; j < N; ++j) for (kk = Ls->nzval_colbeg[j]; kk < Ls->nzval_colend[j]; ++kk) if (kk < 4 * N * N) vh_assert_eq(((double *)Ls->nzval)[kk], lcopy[kk], "factor reuse leaves L unchanged");
            for (j = 0; j < N; ++j) for (kk = Us->colbeg[j]; kk < Us->colend[j]; ++kk) if (kk < N * N + N) vh_assert_eq(((double *)Us->nzval)[kk], ucopy[kk], "factor reuse leaves U unchanged");
            (void)nl;
        }
    }
#endif
    VH_WITNESS();
    return 0;
}
