/* ord_h.c -- C10 (and the ordering half of C16).
 * MODE 1: REAL get_perm_c(ISPEC) (getata, at_plus_a, genmmd_, colamd) on a concrete M x N pattern:
 *         result is a bijection, every allocation is released.
 * MODE 2: REAL sp_colorder (sp_coletree / sp_symetree, TreePostorder, qrnzcnt / cholnzcnt) on a concrete
 *         N x N pattern with a SYMBOLIC input column permutation (any bijection), SYM = symmetric mode:
 *         AC is the column view of A (shares the arrays, A untouched), perm_c stays a bijection and is
 *         changed only by composing with a postorder of the etree of A*Pc_in, the reported etree is the
 *         etree of the final AC (quadratic reference below) and is postordered, the reported
 *         supernode partition consists of consecutive blocks, counts are positive.
 */
#include "slu_mt_ddefs.h"
#include "vh.h"
int vh_log_i; double vh_log_d;
#include "env_stubs.h"
#ifndef N
#define N 3
#endif
#ifndef M
#define M N
#endif
#ifndef MODE
#define MODE 2
#endif
#ifndef ISPEC
#define ISPEC 1
#endif
#ifndef SYM
#define SYM 0
#endif
#ifndef VH_MAXSUP
#define VH_MAXSUP 4
#endif
int_t sp_ienv(int_t i) { return i == 3 ? VH_MAXSUP : 1; }
static int live;
void *vh_malloc(size_t s) { ++live; return malloc(s); }
void vh_free(void *p) { if (p) --live; free(p); }
static int pat(int i, int j) { return (int)(((unsigned long)PAT >> (i + j * M)) & 1UL); }

/* reference: elimination tree of the symmetric boolean matrix B (n x n), parent = n for roots */
static int ref_cnt[N];   /* column counts (diagonal included) of the symbolic Cholesky factor of the last B */
static void ref_etree(int n, int B[N][N], int parent[N])
{
    int S[N][N], i, j, k;
    for (j = 0; j < n; ++j) {
        for (i = 0; i < n; ++i) S[i][j] = (i > j) && B[i][j];
        for (k = 0; k < j; ++k) if (parent[k] == j) for (i = j + 1; i < n; ++i) if (S[i][k]) S[i][j] = 1;
        parent[j] = n;
        for (i = n - 1; i > j; --i) if (S[i][j]) parent[j] = i;
        ref_cnt[j] = 1;
        for (i = j + 1; i < n; ++i) if (S[i][j]) ++ref_cnt[j];
    }
}

VH_MAIN
{
    static double aval[M * N + 1];
    static int_t rowind[M * N + 1], colptr[N + 1], rowind0[M * N + 1], colptr0[N + 1], perm_c[N], pc_in[N];
    int i, j, k, nnz = 0;
    SuperMatrix A; static NCformat st;
    for (j = 0; j < N; ++j) { colptr[j] = nnz; for (i = 0; i < M; ++i) if (pat(i, j)) rowind[nnz++] = i; }
    colptr[N] = nnz;
    for (k = 0; k <= nnz; ++k) rowind0[k] = rowind[k];
    for (k = 0; k <= N; ++k) colptr0[k] = colptr[k];
    st.nnz = nnz; st.nzval = aval; st.rowind = rowind; st.colptr = colptr;
    A.Stype = SLU_NC; A.Dtype = SLU_D; A.Mtype = SLU_GE; A.nrow = M; A.ncol = N; A.Store = &st;
#if MODE == 1
    for (i = 0; i < N; ++i) perm_c[i] = -5;
    get_perm_c(ISPEC, &A, perm_c);
    for (i = 0; i < N; ++i) {
        vh_assert(perm_c[i] >= 0 && perm_c[i] < N, "ordering entry in range");
        for (k = 0; k < i; ++k) vh_assert(perm_c[i] != perm_c[k], "ordering entries distinct");
    }
#ifdef LEAKCHK   /* C17 */
    vh_assert(live == 0, "every temporary of the ordering routine is released");
#endif
#else
    {
        static int_t etree[N], colcnt_h[N], part_super_h[N];
        static superlumt_options_t o;
        SuperMatrix AC; NCPformat *ac;
        int Bin[N][N], Bout[N][N], par_in[N], par_out[N], post[N + 1], inv_in[N];
        for (i = 0; i < N; ++i) {
#ifdef PCFIX   /* concrete input permutation, one hex digit per column (larger n) */
            perm_c[i] = (int)(((unsigned long)PCFIX >> (4 * i)) & 15UL);
#else
            perm_c[i] = vh_int_in(0, N - 1);
            for (k = 0; k < i; ++k) vh_assume(perm_c[i] != perm_c[k]);
#endif
            pc_in[i] = perm_c[i];
        }
        o.refact = NO; o.SymmetricMode = SYM ? YES : NO; o.etree = etree; o.colcnt_h = colcnt_h; o.part_super_h = part_super_h;
        o.panel_size = 1; o.relax = 1; o.nprocs = 1;
        sp_colorder(&A, perm_c, &o, &AC);
        ac = (NCPformat *)AC.Store;
        vh_assert(AC.Stype == SLU_NCP && AC.nrow == M && AC.ncol == N, "AC header");
        vh_assert(ac->rowind == rowind && ac->nzval == (void *)aval && ac->nnz == nnz, "AC shares A's arrays");
        for (k = 0; k < nnz; ++k) vh_assert(rowind[k] == rowind0[k], "A's row indices unchanged");
        for (k = 0; k <= N; ++k) vh_assert(colptr[k] == colptr0[k], "A's column pointers unchanged");
        for (i = 0; i < N; ++i) {
            vh_assert(perm_c[i] >= 0 && perm_c[i] < N, "perm_c in range");
            for (k = 0; k < i; ++k) vh_assert(perm_c[i] != perm_c[k], "perm_c distinct");
            vh_assert(ac->colbeg[perm_c[i]] == colptr[i] && ac->colend[perm_c[i]] == colptr[i + 1], "column perm_c[i] of AC is column i of A");
            vh_assert(etree[i] > i && etree[i] <= N, "parent is larger");
        }
        for (i = 0; i < N; ++i) for (k = i + 1; k < N; ++k) if (k < etree[i]) vh_assert(etree[k] <= etree[i], "every subtree is a contiguous range ending at its root");
        /* structure whose elimination tree is meant: (A Pc)^T (A Pc), or Pc (A + A^T) Pc^T in symmetric mode */
        for (i = 0; i < N; ++i) inv_in[pc_in[i]] = i;
        for (i = 0; i < N; ++i) for (j = 0; j < N; ++j) {
            int a = 0, b = 0, ci = inv_in[i], cj = inv_in[j], r;   /* columns of A sitting at positions i, j before / after */
            int di = 0, dj = 0;
            for (r = 0; r < N; ++r) { if (perm_c[r] == i) di = r; if (perm_c[r] == j) dj = r; }
#if SYM
            a = pat(ci, cj) || pat(cj, ci); b = pat(di, dj) || pat(dj, di);
#else
            for (r = 0; r < M; ++r) { if (pat(r, ci) && pat(r, cj)) a = 1; if (pat(r, di) && pat(r, dj)) b = 1; }
#endif
            Bin[i][j] = a; Bout[i][j] = b;
        }
        ref_etree(N, Bin, par_in);
        ref_etree(N, Bout, par_out);
        for (i = 0; i < N; ++i) vh_assert(etree[i] == par_out[i], "reported etree is the elimination tree of the final A*Pc");
#if SYM
        /* symmetric mode: the counts that reserve L's storage are exactly the column counts of the Cholesky factor of
           Pc (A+A^T) Pc^T, and the columns of one reported supernode nest (struct(k) = {k} + struct(k+1)), so that
           width * count(first) values hold the whole block */
        for (i = 0; i < N; ++i) vh_assert(colcnt_h[i] == ref_cnt[i], "symmetric mode: reported column count is the Cholesky column count");
        { int jj = 0, it, w; for (it = 0; it < N && jj < N; ++it) { w = part_super_h[jj]; for (k = jj; k + 1 < jj + w && k + 1 < N; ++k) vh_assert(ref_cnt[k] == ref_cnt[k + 1] + 1, "symmetric mode: columns of one reported supernode have nested structures"); jj += (w >= 1 ? w : 1); } }
#endif
        /* the caller's ordering is only composed with a relabelling that preserves the tree */
        for (i = 0; i < N; ++i) post[pc_in[i]] = perm_c[i];
        post[N] = N;
        for (i = 0; i < N; ++i) vh_assert(post[par_in[i]] == etree[post[i]], "perm_c_out = post o perm_c_in with post a relabelling of the etree of A*Pc_in");
        { int jj = 0, it; for (it = 0; it < N && jj < N; ++it) { vh_assert(part_super_h[jj] >= 1, "partition block non-empty"); jj += part_super_h[jj]; } vh_assert(jj == N, "partition covers 0..n-1 with consecutive blocks"); }
        /* a supernode of the bounding factor is a path of the elimination tree: inside a block every column is the parent of its predecessor
           (storage reservation relies on it, C05/C16).  Stated for matrices without an empty column: an empty column never starts a block in
           the column-etree mode, which C10 does not forbid ("a partition into consecutive blocks") and which only matters on inputs that
           already fail in pivotL (finding F1) */
        { int jj = 0, it, w, noempty = 1;
          for (j = 0; j < N; ++j) if (colptr[j + 1] == colptr[j]) noempty = 0;
          if (SYM || noempty) for (it = 0; it < N && jj < N; ++it) { w = part_super_h[jj]; for (k = jj; k + 1 < jj + w && k + 1 < N; ++k) vh_assert(etree[k] == k + 1, "columns of one reported supernode form a path of the elimination tree"); jj += (w >= 1 ? w : 1); } }
        for (j = 0; j < N; ++j) vh_assert(colcnt_h[j] >= 0 && colcnt_h[j] <= M, "column count of the bounding factor in range");
        Destroy_CompCol_Permuted(&AC);
#ifdef LEAKCHK   /* C17 */
        vh_assert(live == 0, "every temporary of the preprocessing step is released");
#endif
    }
#endif
    VH_WITNESS();
    return 0;
}
