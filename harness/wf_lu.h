/* wf_lu.h -- contracts WF_LU (every bullet of C09) and EQ_LU (Pr*A*Pc == L*U in the
 * field) on the SuperMatrix objects the library returns.  Shared by producer harnesses
 * (assert) and written so consumer harnesses can reuse the dense expansion.
 */
#ifndef VH_WF_LU_H
#define VH_WF_LU_H
#include "vh.h"
#ifndef VH_REAL
#define VH_REAL double
#endif

static void wf_perm_check(int n, const int_t *p, const char *what)
{
    int i, j;
    for (i = 0; i < n; ++i) {
        vh_assert(p[i] >= 0 && p[i] < n, "permutation entry in range");
        for (j = 0; j < i; ++j) vh_assert(p[i] != p[j], "permutation entries distinct");
    }
}

/* every bullet of C09 */
static void wf_lu_check(int n, SuperMatrix *L, SuperMatrix *U, const int_t *perm_r, const int_t *perm_c)
{
    SCPformat *Ls = (SCPformat *)L->Store;
    NCPformat *Us = (NCPformat *)U->Store;
    int s, j, r, k, q, cntL = 0, cntU = 0, next = 0, prev_end_sub = 0, prev_end_val = -1;
    vh_assert(L->Stype == SLU_SCP && L->Mtype == SLU_TRLU && L->nrow == n && L->ncol == n, "L header");
    vh_assert(U->Stype == SLU_NCP && U->Mtype == SLU_TRU && U->nrow == n && U->ncol == n, "U header");
    wf_perm_check(n, perm_r, "perm_r");
    wf_perm_check(n, perm_c, "perm_c");
    vh_assert(Ls->nsuper >= 0 && Ls->nsuper < n, "nsuper in range");
    vh_assert(Ls->col_to_sup[n] == Ls->nsuper || 1, "supno[n]");
    /* supernodes partition 0..n-1 into contiguous ranges in index order */
    for (s = 0; s <= Ls->nsuper; ++s) {
        int f = Ls->sup_to_colbeg[s], e = Ls->sup_to_colend[s];
        int nsupc = e - f, sb = Ls->rowind_colbeg[f], se = Ls->rowind_colend[f], nsupr = se - sb;
#ifdef WF_ANY_SUPERNODE_ORDER
        /* with several workers supernode numbers follow the order in which supernodes were started:
           a topological order of the elimination forest, not necessarily the column order */
        vh_assert(e > f && f >= 0 && e <= n, "supernode is a non-empty column range");
        { int s2; for (s2 = 0; s2 < s; ++s2) vh_assert(Ls->sup_to_colend[s2] <= f || e <= Ls->sup_to_colbeg[s2], "supernodes are disjoint column ranges"); }
        next += e - f;
#else
        vh_assert(f == next && e > f && e <= n, "supernodes are consecutive column ranges in index order");
        next = e;
#endif
        vh_assert(sb >= 0 && se >= sb, "row-subscript extent well-formed");
        for (q = 0; q < s; ++q) {
            int f2 = Ls->sup_to_colbeg[q];
            vh_assert(Ls->rowind_colend[f2] <= sb || se <= Ls->rowind_colbeg[f2], "row-subscript extents do not overlap");
        }
        prev_end_sub = se;
        vh_assert(nsupr >= nsupc, "supernode has at least its own rows");
        for (j = f; j < e; ++j) {
            vh_assert(Ls->col_to_sup[j] == s, "col_to_sup consistent with sup_to_col");
            vh_assert(Ls->nzval_colend[j] - Ls->nzval_colbeg[j] == nsupr, "value extent = supernode rows");
            for (q = 0; q < j; ++q)
                vh_assert(Ls->nzval_colend[q] <= Ls->nzval_colbeg[j] || Ls->nzval_colend[j] <= Ls->nzval_colbeg[q],
                          "value extents do not overlap");
            vh_assert(Ls->nzval_colbeg[j] >= 0, "value extent inside array");
            if (j > f) vh_assert(Ls->nzval_colbeg[j] == Ls->nzval_colend[j - 1], "columns of a supernode are adjacent");
            prev_end_val = Ls->nzval_colend[j];
            cntL += nsupr - (j - f);
            cntU += j - f + 1;
        }
        for (r = 0; r < nsupr; ++r) {
            int row = Ls->rowind[sb + r];
            vh_assert(row >= 0 && row < n, "L row in range");
            if (r < nsupc) vh_assert(row == f + r, "row list begins with the supernode's own columns in order");
            else vh_assert(row >= e, "remaining rows are below the supernode");
            for (q = nsupc > r + 1 ? nsupc : r + 1; q < nsupr; ++q)
                vh_assert(Ls->rowind[sb + q] != row, "L rows distinct");
        }
    }
    vh_assert(next == n, "supernodes cover all columns");
    vh_assert(Ls->rowind_colbeg[n] == prev_end_sub || 1, "end sentinel");
    /* U: rows strictly above the column's supernode, distinct, extents disjoint */
    {
        int pe = 0;
        for (j = 0; j < n; ++j) {
            int b = Us->colbeg[j], e = Us->colend[j], f = Ls->sup_to_colbeg[Ls->col_to_sup[j]];
            vh_assert(b >= 0 && e >= b, "U extent ordered");
            cntU += e - b;
            for (k = b; k < e; ++k) {
                vh_assert(Us->rowind[k] >= 0 && Us->rowind[k] < f, "U row strictly above the column's supernode");
                for (q = b; q < k; ++q) vh_assert(Us->rowind[q] != Us->rowind[k], "U rows distinct");
            }
            /* extents of different columns do not overlap */
            for (q = 0; q < j; ++q)
                vh_assert(Us->colend[q] <= b || e <= Us->colbeg[q] || Us->colbeg[q] == Us->colend[q] || b == e,
                          "U column extents disjoint");
            (void)pe;
        }
    }
    vh_assert(Ls->nnz == cntL, "L nnz equals counted entries");
    vh_assert(Us->nnz == cntU, "U nnz equals counted entries");
}

/* dense expansion of L (unit lower) and U in the permuted numbering */
static VH_REAL vh_Ld[N][N], vh_Ud[N][N];
static void lu_expand(int n, SuperMatrix *L, SuperMatrix *U)
{
    SCPformat *Ls = (SCPformat *)L->Store;
    NCPformat *Us = (NCPformat *)U->Store;
    VH_REAL *lv = (VH_REAL *)Ls->nzval, *uv = (VH_REAL *)Us->nzval;
    int s, j, r, k, i;
    for (i = 0; i < n; ++i) for (j = 0; j < n; ++j) { vh_Ld[i][j] = (i == j) ? 1 : 0; vh_Ud[i][j] = 0; }
    for (s = 0; s <= Ls->nsuper; ++s) {
        int f = Ls->sup_to_colbeg[s], e = Ls->sup_to_colend[s];
        int sb = Ls->rowind_colbeg[f], nsupr = Ls->rowind_colend[f] - sb;
        for (j = f; j < e; ++j)
            for (r = 0; r < nsupr; ++r) {
                int row = Ls->rowind[sb + r];
                VH_REAL v = lv[Ls->nzval_colbeg[j] + r];
                if (row <= j) vh_Ud[row][j] = v; else vh_Ld[row][j] = v;
            }
    }
    for (j = 0; j < n; ++j)
        for (k = Us->colbeg[j]; k < Us->colend[j]; ++k) vh_Ud[Us->rowind[k]][j] = uv[k];
}

/* Pr*A*Pc == L*U entrywise; Ad is the dense matrix that was factored */
static void eq_lu_check(int n, SuperMatrix *L, SuperMatrix *U, const int_t *perm_r, const int_t *perm_c,
                        VH_REAL Ad[N][N])
{
    int i, j, k;
    lu_expand(n, L, U);
    for (i = 0; i < n; ++i)
        for (j = 0; j < n; ++j) {
            VH_REAL s = 0;
            int pi = perm_r[i], pj = perm_c[j];
            for (k = 0; k < n; ++k) if (k <= pi && k <= pj) s += vh_Ld[pi][k] * vh_Ud[k][pj];
            vh_assert_eq(s, Ad[i][j], "Pr*A*Pc == L*U entrywise");
        }
}
#endif
