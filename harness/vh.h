/* vh.h -- common harness layer.
 *
 * Under CBMC (__CPROVER__ defined by goto-cc) inputs are nondeterministic and every
 * input is logged in vh_log_* so that the driver can read it back from a trace or a
 * model.  Under a native compiler (replay) the same calls read the logged values from
 * the file named by $VH_REPLAY, one per line, in call order ("i <int>" / "d <hexdouble>"),
 * or - when $VH_RANDOM is set - doubles come from a seeded generator (used to confirm
 * GF(p) counterexamples, which have no direct floating-point reading).
 */
#ifndef VH_H
#define VH_H
#include <stdlib.h>
#include <stdio.h>
#include <string.h>

#ifdef VH_CBMC
int nondet_int(void);
double nondet_double(void);
float nondet_float(void);
extern int vh_log_i;
extern double vh_log_d;
static inline int vh_int(void) { int v = nondet_int(); vh_log_i = v; return v; }
static inline double vh_double(void) { double v = nondet_double(); vh_log_d = v; return v; }
#define vh_assume(c) __CPROVER_assume(c)
#define vh_assert(c, msg) __CPROVER_assert((c), "VH: " msg)
/* exact equality in the field the E2 rewriter maps double to */
#define vh_assert_eq(a, b, msg) __CPROVER_assert((a) == (b), "VH: " msg)
#define vh_assert_le(a, b, msg) __CPROVER_assert((a) <= (b), "VH: " msg)
#define VH_MAIN int main(void)
#else
#include <math.h>
int vh_int(void);
double vh_double(void);
void vh_fail(const char *msg);
void vh_infeasible(const char *msg);
#define vh_assume(c) do { if (!(c)) vh_infeasible(#c); } while (0)
#define vh_assert(c, msg) do { if (!(c)) vh_fail(msg); } while (0)
#define VH_TOL 1e-7
#define vh_assert_eq(a, b, msg) do { double a_ = (a), b_ = (b); \
    if (!(fabs(a_ - b_) <= VH_TOL * (1.0 + fabs(a_) + fabs(b_)))) vh_fail(msg); } while (0)
#define vh_assert_le(a, b, msg) do { double a_ = (a), b_ = (b); \
    if (!(a_ <= b_ + VH_TOL * (1.0 + fabs(a_) + fabs(b_)))) vh_fail(msg); } while (0)
#define VH_MAIN int main(void)
#endif

/* inclusive ranges */
#ifdef VH_CBMC
static inline double vh_double_in(double lo, double hi) { double v = vh_double(); vh_assume(v >= lo && v <= hi); return v; }
#else
double vh_double_in(double lo, double hi);
#endif
static inline int vh_int_in(int lo, int hi) { int v = vh_int(); vh_assume(v >= lo && v <= hi); return v; }

#ifdef WITNESS
#define VH_WITNESS() vh_assert(0, "WITNESS reached")
#else
#define VH_WITNESS() do { } while (0)
#endif

#endif
