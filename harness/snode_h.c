/* snode_h.c -- C06: the REAL p?gstrf_factor_snode (factorization of one relaxed supernode) with its callees
 * replaced by contract stubs whose outcomes are symbolic: pivotL reports for EVERY column either success or
 * "zero pivot at this column" (any subset of the columns).  The routine must hand up the FIRST singular column
 * of the supernode (info = smallest such column + 1), 0 if none, and keep the supernode's bookkeeping in bounds.
 * E1, bit-precise.  W = width of the relaxed supernode, starting at column J0.
 */
#include "slu_mt_ddefs.h"
#include "vh.h"
int vh_log_i; double vh_log_d;
#include "env_stubs.h"
#ifndef W
#define W 3
#endif
#ifndef J0
#define J0 1
#endif
#define NN (J0 + W + 1)
#define NSUPR (W + 2)          /* rows of the supernode: its own columns plus two further rows */
extern int_t pdgstrf_factor_snode(const int_t, const int_t, SuperMatrix *, const double, yes_no_t *, int_t *, int_t *, int_t *, int_t *, int_t *, int_t *,
                                  double *, double *, pxgstrf_shared_t *, int_t *);
int_t sp_ienv(int_t i) { return 1; }
static int sing[NN], first_sing = 0, calls;
int_t pdgstrf_snode_dfs(const int_t pnum, const int_t jcol, const int_t kcol, const int_t *asub, const int_t *xa_begin, const int_t *xa_end,
                        int_t *xprune, int_t *marker, int_t *col_lsub, pxgstrf_shared_t *sh)
{   /* contract: new supernode led by jcol with NSUPR row subscripts stored at lsub[0..NSUPR) */
    GlobalLU_t *G = sh->Glu; int i;
    G->supno[jcol] = 0; G->xsup[0] = jcol;
    for (i = jcol; i <= kcol; ++i) G->supno[i] = 0;
    G->xlsub[jcol] = 0; G->xlsub_end[jcol] = NSUPR;
    for (i = 0; i < NSUPR; ++i) G->lsub[i] = jcol + i < NN ? jcol + i : NN - 1;
    return 0;
}
int_t Glu_alloc(const int_t pnum, const int_t jcol, const int_t num, const MemType t, int_t *prev_next, pxgstrf_shared_t *sh)
{ vh_assert(t == LUSUP && num == NSUPR * W, "value block of the whole relaxed supernode is requested once"); *prev_next = 0; return 0; }
int_t pdgstrf_snode_bmod(const int_t pnum, const int_t jcol, const int_t jsupno, const int_t fsupc, double *dense, double *tempv, GlobalLU_t *Glu, Gstat_t *Gstat) { return 0; }
int_t pdgstrf_pivotL(const int_t pnum, const int_t jcol, const double u, yes_no_t *usepr, int_t *perm_r, int_t *inv_perm_r, int_t *inv_perm_c,
                     int_t *pivrow, GlobalLU_t *Glu, Gstat_t *Gstat)
{   /* contract: 0, or jcol+1 when every candidate of column jcol is exactly zero (the factorization goes on) */
    vh_assert(jcol >= J0 && jcol < J0 + W && jcol == J0 + calls, "columns of the supernode are pivoted once each, in order");
    ++calls;
    *pivrow = jcol;
    if (sing[jcol]) { if (!first_sing) first_sing = jcol + 1; return jcol + 1; }
    return 0;
}

VH_MAIN
{
    static SuperMatrix A; static NCPformat st; static double aval[NN]; static int_t asub[NN], colbeg[NN], colend[NN];
    static int_t perm_r[NN], inv_perm_r[NN], inv_perm_c[NN], xprune[NN], marker[NN], col_lsub[NN];
    static double dense[NN], tempv[NN];
    static int_t xsup[NN + 1], xsup_end[NN], supno[NN + 1], lsub[4 * NSUPR], xlsub[NN + 1], xlsub_end[NN], xlusup[NN + 1], xlusup_end[NN], xusub[NN + 1], xusub_end[NN];
    static GlobalLU_t Glu; static Gstat_t Gstat; static pxgstrf_shared_t sh; static pan_status_t pan[NN];
    yes_no_t usepr = NO; int_t info = 77; int j;
    for (j = 0; j < NN; ++j) { asub[j] = j; colbeg[j] = j; colend[j] = j + 1; aval[j] = 1.0; sing[j] = vh_int_in(0, 1); }
    st.nnz = NN; st.nzval = aval; st.rowind = asub; st.colbeg = colbeg; st.colend = colend;
    A.Stype = SLU_NCP; A.Dtype = SLU_D; A.Mtype = SLU_GE; A.nrow = NN; A.ncol = NN; A.Store = &st;
    Glu.xsup = xsup; Glu.xsup_end = xsup_end; Glu.supno = supno; Glu.lsub = lsub; Glu.xlsub = xlsub; Glu.xlsub_end = xlsub_end;
    Glu.xlusup = xlusup; Glu.xlusup_end = xlusup_end; Glu.xusub = xusub; Glu.xusub_end = xusub_end; Glu.nextu = 0;
    sh.Glu = &Glu; sh.Gstat = &Gstat; sh.pan_status = pan; sh.A = &A;
    pan[J0].size = W; pan[J0].type = RELAXED_SNODE;

    pdgstrf_factor_snode(0, J0, &A, 1.0, &usepr, perm_r, inv_perm_r, inv_perm_c, xprune, marker, col_lsub, dense, tempv, &sh, &info);

    vh_assert(calls == W, "every column of the relaxed supernode is factored, singular or not");
    vh_assert(info == first_sing, "the supernode reports its FIRST singular column (column index + 1), 0 if none");
    for (j = J0; j < J0 + W; ++j) vh_assert(xlusup[j] == (j - J0) * NSUPR, "columns of the supernode follow each other in the value block");
    VH_WITNESS();
    return 0;
}
