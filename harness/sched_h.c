/* sched_h.c -- C03(a)/C04: all schedules of P workers over the REAL scheduler.
 *
 * Real code: pxgstrf_relax_snode, ParallelInit (queue_init, EnqueueRelaxSnode),
 * pxgstrf_scheduler.  Workers are harness coroutines that follow the loop of
 * pdgstrf_thread: "while (tasks_remain > 0) { scheduler(); if got a panel: work on it }".
 * Working on a relaxed supernode = one step (release all its columns, state DONE).
 * Working on a regular panel = first wait until every descendant column is released (the
 * real code awaits exactly the busy ones, C03(b)), then release the panel's columns one per
 * step, then state DONE.  Which worker moves at each step is a symbolic input, so the solver
 * covers every interleaving at this granularity; the elimination forest is symbolic
 * (every postordered forest on N nodes) or fixed by -DFIXTREE, panel size and relaxation
 * are symbolic in 1..3.  After STEPS symbolic steps the harness continues round-robin
 * (DRAIN rounds): from every state the symbolic prefix can reach, the factorization must
 * complete -- a reachable deadlock or lost wake-up would leave a panel unfinished.
 * (Superseded: instead of a drain, a state in which every worker has tried a move and none
 * changed anything while work remains is asserted unreachable at every step; the witness
 * requires that some schedule within the bound runs to completion.)
 */
#include "slu_mt_ddefs.h"
#include "vh.h"
int vh_log_i; double vh_log_d;
#include "env_stubs.h"

#ifndef NMAX
#define NMAX 4
#endif
#ifndef P
#define P 2
#endif
#ifndef STEPS
#define STEPS 12
#endif
#ifndef WMAX
#define WMAX 3
#endif
#ifndef SNODE_BREAK
#define SNODE_BREAK 1
#endif
#ifndef RMAX
#define RMAX 3
#endif

extern void pxgstrf_relax_snode(const int_t, superlumt_options_t *, pxgstrf_relax_t *);
int_t sp_ienv(int_t i) { return 1; }

extern void pxgstrf_mark_busy_descends(int_t, int_t, int_t *, pxgstrf_shared_t *, int_t *, int_t *);
static int_t n, etree[NMAX + 1];
static int_t lbusy[P][NMAX + 1], g_xsup[NMAX + 1], g_supno[NMAX + 1], g_xsup_end[NMAX + 1];
static pxgstrf_shared_t sh;
static int cur[P], holding[P], exited[P], taken[NMAX], ntaken, total;

static int anc[NMAX + 1][NMAX + 1];       /* anc[k][j]: column j is a proper ancestor of column k */
static void build_anc(void)
{
    int k, j, d, it;
    for (k = 0; k < NMAX; ++k) for (j = 0; j < NMAX; ++j) anc[k][j] = 0;
    for (k = 0; k < NMAX; ++k) if (k < n) {
        d = etree[k];
        for (it = 0; it < NMAX; ++it) if (d < n) { anc[k][d] = 1; d = etree[d]; }
    }
}
/* column k (<j) is a proper descendant of panel [j, j+w): panels are etree chains, so this is
   "the last column of the panel is an ancestor of k" */
static int is_desc(int k, int j, int w) { return k < j && anc[k][j + w - 1]; }

static int panel_of(int c)                /* leading column of the panel containing column c */
{
    int s = sh.pan_status[c].size;
    return s >= 1 ? c : c + s;
}

static void check_take(int p, int jcol, int bcol)
{
    int k, k2, w;
    vh_assert(jcol >= 0 && jcol < n, "scheduler returns a column in range");
    vh_assert(sh.pan_status[jcol].size >= 1, "scheduler returns the leading column of a panel");
    vh_assert(taken[jcol] == 0, "a panel is handed out at most once");
    vh_assert(sh.pan_status[jcol].state == BUSY, "a panel that was handed out is marked BUSY");
    w = sh.pan_status[jcol].size;
    vh_assert(jcol + w <= n, "panel inside the matrix");
    for (k = 0; k < NMAX; ++k) if (k >= jcol && k < jcol + w && k < n)
        vh_assert(sh.spin_locks[k] == 1, "columns of a handed-out panel are locked");
    /* every descendant panel is finished, except one chain of busy ones that starts at bcol */
    vh_assert(bcol >= 0 && bcol <= jcol, "farthest busy descendant is a column at or below the panel");
    for (k = 0; k < NMAX; ++k) {
        if (k < jcol && sh.pan_status[k].size >= 1 && is_desc(k + sh.pan_status[k].size - 1, jcol, w)) {
            int st = sh.pan_status[k].state;
            if (st != DONE) {
                int held = 0, q;
                vh_assert(st == BUSY, "an unfinished descendant panel has been started");
                vh_assert(bcol <= k, "the reported farthest busy descendant is at or below every unfinished descendant");
                for (q = 0; q < P; ++q) if (holding[q] && cur[q] == k) held = 1;
                vh_assert(held, "every unfinished descendant is being worked on by some thread (no lost wake-up)");
                /* one chain: any two unfinished descendants are ancestor/descendant of each other */
                for (k2 = 0; k2 < NMAX; ++k2)
                    if (k2 < k && sh.pan_status[k2].size >= 1 && sh.pan_status[k2].state != DONE &&
                        is_desc(k2 + sh.pan_status[k2].size - 1, jcol, w))
                        vh_assert(is_desc(k2 + sh.pan_status[k2].size - 1, k, sh.pan_status[k].size),
                                  "unfinished descendants form a single chain");
            }
        }
    }
    /* C03(b): what the worker marks as busy (REAL pxgstrf_mark_busy_descends) covers every descendant
       column that has not been released yet -- those are the columns panel_dfs must skip and
       panel_bmod must wait for */
#ifdef WITH_MARK_BUSY
    if (sh.pan_status[jcol].type != RELAXED_SNODE) {
        int_t b2 = bcol;
        pxgstrf_mark_busy_descends(p, jcol, etree, &sh, &b2, lbusy[p]);
        for (k = 0; k < NMAX; ++k)
            if (k < jcol && is_desc(k, jcol, w) && sh.spin_locks[k] != 0) {
                vh_assert(lbusy[p][k] == jcol, "every descendant column that is not released yet is marked busy for this panel");
                vh_assert(b2 <= k, "the wait starts at or below every unreleased descendant column");
            }
        vh_assert(b2 >= 0 && b2 <= jcol, "start of the wait chain in range");
    }
#endif
    if (bcol < jcol) {
        int pb = panel_of(bcol);
        vh_assert(sh.pan_status[pb].state != DONE, "the reported busy descendant is really unfinished");
        vh_assert(is_desc(bcol, jcol, w), "the reported busy descendant is a descendant");
    }
}

static void check_global(void)
{
    vh_assert(sh.tasks_remain == total - ntaken, "tasks_remain counts the panels not yet handed out");
    vh_assert(sh.taskq.head >= 0 && sh.taskq.head <= sh.taskq.tail && sh.taskq.tail <= n, "task queue stays inside its n slots");
    vh_assert(sh.taskq.count >= 0 && sh.taskq.count <= sh.taskq.tail - sh.taskq.head, "queue count consistent");
}

/* one move of worker p; returns 1 if the move changed anything */
static int step(int p)
{
    int k;
    if (exited[p]) return 0;
    if (holding[p]) {
        int j = cur[p], w = sh.pan_status[j].size;
        if (sh.pan_status[j].type != RELAXED_SNODE) {
            /* pipeline wait: the worker sits in await() until its descendants' columns are released */
            for (k = 0; k < NMAX; ++k)
                if (k < j && is_desc(k, j, w) && sh.spin_locks[k] != 0) return 0;
        }
        for (k = 0; k < NMAX; ++k) if (k >= j && k < j + w) sh.spin_locks[k] = 0;
        sh.pan_status[j].state = DONE;
        holding[p] = 0;
        return 1;
    }
    if (sh.tasks_remain <= 0) { exited[p] = 1; return 1; }   /* worker leaves its main loop */
    {
        int_t jcol = cur[p], bcol = EMPTY;
        int before = sh.taskq.head;
        pxgstrf_scheduler(p, n, etree, &jcol, &bcol, &sh);
        k = (cur[p] != EMPTY) || (jcol != EMPTY) || before != sh.taskq.head;
        cur[p] = jcol;
        if (jcol != EMPTY) {
            check_take(p, jcol, bcol);
            taken[jcol] = 1; ++ntaken; holding[p] = 1;
        }
        check_global();
        return k;
    }
}

VH_MAIN
{
    int i, k, s, p;
    static superlumt_options_t opt;
    static int_t histo[8];
    static Gstat_t Gstat;
    static GlobalLU_t Glu;
    static procstat_t procstat[P];
    static pxgstrf_relax_t relaxs[NMAX + 2];
    static int_t panhows[3];

#ifdef FIXTREE
    static const int_t fixed[] = FIXTREE;
    n = NMAX;
    for (i = 0; i < NMAX; ++i) etree[i] = fixed[i];
#else
    n = NMAX;   /* sizes concrete per query (symbolic n makes every malloc symbolic-sized) */
    for (i = 0; i < NMAX; ++i) { int_t par = vh_int(); if (i < n) { vh_assume(par > i && par <= n); etree[i] = par; } }
    /* postordered: every subtree is a contiguous range ending at its root */
    for (i = 0; i < NMAX; ++i) if (i < n)
        for (k = i + 1; k < NMAX; ++k) if (k < n && k < etree[i]) vh_assume(etree[k] <= etree[i]);
#endif
    opt.etree = etree;
    opt.panel_size = vh_int_in(1, WMAX);
    opt.relax = vh_int_in(1, RMAX);
    opt.nprocs = P;
    Gstat.panel_histo = histo; Gstat.procstat = procstat; Gstat.panhows = panhows;
    sh.Gstat = &Gstat; sh.Glu = &Glu;

    pxgstrf_relax_snode(n, &opt, relaxs);
    ParallelInit(n, relaxs, &opt, &sh);

    build_anc();
    /* supernodes of finished columns as mark_busy_descends sees them: symbolic boundaries inside panels
       (a supernode never crosses a panel boundary at the time its panel is busy or done) */
    Glu.xsup = g_xsup; Glu.supno = g_supno; Glu.xsup_end = g_xsup_end;
    {
        int s_ = -1, c;
        for (c = 0; c < NMAX; ++c) if (c < n) {
#ifdef SYMBOLIC_SUPERNODES
            int brk = vh_int_in(0, 1);
#else
            int brk = SNODE_BREAK;   /* 1: every finished column its own supernode, 0: one supernode per panel */
#endif
            if (sh.pan_status[c].size >= 1 || brk) { ++s_; g_xsup[s_] = c; }
            g_supno[c] = s_; g_xsup_end[s_] = c + 1;
        }
        for (p = 0; p < P; ++p) for (c = 0; c <= NMAX; ++c) lbusy[p][c] = EMPTY;
    }
    total = sh.tasks_remain;
    for (i = 0; i < NMAX; ++i) taken[i] = 0;
    for (p = 0; p < P; ++p) { cur[p] = EMPTY; holding[p] = 0; exited[p] = 0; }
    /* the panels partition the columns; total = number of panels */
    {
        int np = 0, nx = 0;
        for (i = 0; i < NMAX; ++i) if (i < n) {
            if (sh.pan_status[i].size >= 1) { vh_assert(i == nx, "panels are consecutive"); nx = i + sh.pan_status[i].size; ++np; }
            else vh_assert(i < nx && i + sh.pan_status[i].size >= 0 && sh.pan_status[i + sh.pan_status[i].size].size >= 1 - sh.pan_status[i].size - 0,
                           "non-leading column points back to its panel");
        }
        vh_assert(nx == n, "panels cover all columns");
        vh_assert(np == total, "one task per panel");
    }
    check_global();

    {
        int stuck[P], alldone = 0, complete_seen = 0;
        for (p = 0; p < P; ++p) stuck[p] = 0;
        for (s = 0; s < STEPS; ++s) {
            int all;
            p = vh_int_in(0, P - 1);
            if (step(p)) { int q; for (q = 0; q < P; ++q) stuck[q] = 0; }
            else stuck[p] = 1;
            /* deadlock / lost wake-up: every worker has just tried to move and none could */
            all = 1;
            for (p = 0; p < P; ++p) if (!stuck[p] && !exited[p]) all = 0;
            alldone = 1;
            for (p = 0; p < P; ++p) if (!exited[p]) alldone = 0;
            vh_assert(!all || alldone, "no reachable state in which no worker can move while work remains (deadlock / lost wake-up)");
            if (alldone) {
                complete_seen = 1;
                vh_assert(sh.tasks_remain == 0, "tasks_remain is zero when all workers have left");
                vh_assert(ntaken == total, "every panel handed out exactly once");
                for (i = 0; i < NMAX; ++i) if (i < n) {
                    vh_assert(sh.spin_locks[i] == 0, "every column released at the end");
                    if (sh.pan_status[i].size >= 1)
                        vh_assert(taken[i] == 1 && sh.pan_status[i].state == DONE, "every panel taken and finished at the end");
                }
            }
        }
#ifdef WITNESS
        vh_assert(!complete_seen, "WITNESS reached");   /* some schedule within the bound completes the factorization */
#endif
    }
    return 0;
}
