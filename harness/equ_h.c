/* equ_h.c -- C11: REAL ?gsequ and ?laqgs on a concrete M x N pattern with symbolic values
 * (ordered field, Real mode).  ?lamch_ returns the exact IEEE double constants.
 * GROUP selects which assertion group the query carries (one group per query keeps the
 * non-linear arithmetic small): 1 scale factors / ratios / amax / info,  2 apply step.
 */
#ifdef VH_SINGLE
#include "slu_mt_sdefs.h"
#define double_t_ float
#define GSEQU sgsequ
#define LAQGS slaqgs
#else
#include "slu_mt_ddefs.h"
#define double_t_ double
#define GSEQU dgsequ
#define LAQGS dlaqgs
#endif
#include "vh.h"
int vh_log_i; double vh_log_d;
#include "env_stubs.h"
#ifndef N
#define N 2
#endif
#ifndef M
#define M N
#endif
#ifndef GROUP
#define GROUP 1
#endif
#ifdef VH_SINGLE
#define SMLNUM 1.1754943508222875e-38            /* 2^-126 */
#define PREC 1.1920928955078125e-07              /* 2^-23 */
#else
#define SMLNUM 2.2250738585072014e-308           /* 2^-1022 */
#define PREC 2.220446049250313e-16               /* 2^-52 */
#endif
int_t sp_ienv(int_t i) { return 1; }
int xerbla_(char *s, int *i) { vh_assert(0, "xerbla_ called on valid arguments"); return 0; }
#ifdef VH_SINGLE
double slamch_(char *c)
#else
double dlamch_(char *c)
#endif
{
    /* returned through an input pinned by an assumption, not as a literal: cbmc would otherwise fold a later
       float conversion of the constant in IEEE arithmetic (e.g. a double constant underflowing to 0.0f) */
    double want = (*c == 'S' || *c == 's') ? SMLNUM : (*c == 'P' || *c == 'p') ? PREC : (*c == 'E' || *c == 'e') ? PREC / 2 : 0.0;
    double k = vh_double();
    vh_assume(k == want);
    return k;
}
#ifdef VH_SINGLE
/* the double-precision constants, should single-precision code ask for them by mistake */
double dlamch_(char *c) { double want = (*c == 'S' || *c == 's') ? 2.2250738585072014e-308 : (*c == 'P' || *c == 'p') ? 2.220446049250313e-16 : 1.1102230246251565e-16; double k = vh_double(); vh_assume(k == want); return k; }
#endif
static int pat(int i, int j) { return (int)(((unsigned long)PAT >> (i + j * M)) & 1UL); }
static double ab(double x) { return x < 0 ? -x : x; }
static double mx(double a, double b) { return a > b ? a : b; }
static double mn(double a, double b) { return a < b ? a : b; }

VH_MAIN
{
    static double_t_ a[M * N + 1], a0[M * N + 1], Ad[M][N], r[M], c[N];
    static int_t rowind[M * N + 1], colptr[N + 1];
    int i, j, k, nnz = 0;
    SuperMatrix A; static NCformat st;
    double_t_ rowcnd = -1, colcnd = -1, amax = -1; double bignum = 1.0 / SMLNUM;
    int_t info = -9;
    for (j = 0; j < N; ++j) { colptr[j] = nnz; for (i = 0; i < M; ++i) { Ad[i][j] = 0; if (pat(i, j)) { rowind[nnz] = i; a[nnz] = vh_double(); a0[nnz] = a[nnz]; Ad[i][j] = a[nnz]; ++nnz; } } }
    colptr[N] = nnz;
    st.nnz = nnz; st.nzval = a; st.rowind = rowind; st.colptr = colptr;
#ifdef VH_SINGLE
    A.Stype = SLU_NC; A.Dtype = SLU_S; A.Mtype = SLU_GE;
#else
    A.Stype = SLU_NC; A.Dtype = SLU_D; A.Mtype = SLU_GE;
#endif
    (void)0; A.Stype = SLU_NC; A.nrow = M; A.ncol = N; A.Store = &st;

    GSEQU(&A, r, c, &rowcnd, &colcnd, &amax, &info);

    {
        double rm[M], cm[N], rmin = -1, rmax = 0, cmin = -1, cmax = 0, tmax = 0;
        int zr = -1, zc = -1;
        for (i = 0; i < M; ++i) { rm[i] = 0; for (j = 0; j < N; ++j) rm[i] = mx(rm[i], ab(Ad[i][j])); if (rm[i] == 0 && zr < 0) zr = i;
            rmax = mx(rmax, rm[i]); rmin = (i == 0) ? rm[i] : mn(rmin, rm[i]); tmax = mx(tmax, rm[i]); }
        for (k = 0; k < nnz; ++k) vh_assert_eq(a[k], a0[k], "computing the scale factors does not change A");
        if (zr >= 0) {
            vh_assert(info == zr + 1, "an exactly zero row is reported by its index");
        } else {
            for (j = 0; j < N; ++j) { cm[j] = 0; for (i = 0; i < M; ++i) cm[j] = mx(cm[j], ab(Ad[i][j]) * r[i]); if (cm[j] == 0 && zc < 0) zc = j;
                cmax = mx(cmax, cm[j]); cmin = (j == 0) ? cm[j] : mn(cmin, cm[j]); }
#if GROUP == 1
            vh_assert_eq(amax, tmax, "amax is the largest magnitude");
            for (i = 0; i < M; ++i) {
                vh_assert(r[i] > 0, "row scale factors are positive");
                if (rm[i] >= SMLNUM && rm[i] <= bignum) vh_assert_eq(r[i] * rm[i], 1.0, "unless clipped, each row of diag(R)*A has largest magnitude 1");
                else if (rm[i] < SMLNUM) vh_assert_eq(r[i] * SMLNUM, 1.0, "clipped at the safe minimum");
                else vh_assert_eq(r[i] * bignum, 1.0, "clipped at the safe maximum");
            }
            if (rmin >= SMLNUM && rmax <= bignum)   /* nothing clipped */
                vh_assert_eq(rowcnd * rmax, rmin, "rowcnd is the true ratio of the smallest to the largest row scale factor");
            if (zc >= 0) vh_assert(info == M + zc + 1, "an exactly zero column is reported by its index");
            else {
                vh_assert(info == 0, "no zero row or column: success");
                for (j = 0; j < N; ++j) {
                    vh_assert(c[j] > 0, "column scale factors are positive");
                    if (cm[j] >= SMLNUM && cm[j] <= bignum) vh_assert_eq(c[j] * cm[j], 1.0, "unless clipped, each column of diag(R)*A*diag(C) has largest magnitude 1");
                }
                if (cmin >= SMLNUM && cmax <= bignum)
                    vh_assert_eq(colcnd * cmax, cmin, "colcnd is the true ratio of the smallest to the largest column scale factor");
            }
#else
            if (zc < 0) {
                equed_t eq = (equed_t)77;
                double small = SMLNUM / PREC, large = 1.0 / small;
                int rows, cols;
                vh_assume(info == 0);
                LAQGS(&A, r, c, rowcnd, colcnd, amax, &eq);
                rows = !(rowcnd >= 0.1 && amax >= small && amax <= large);
                cols = !(colcnd >= 0.1);
                vh_assert(eq == (rows ? (cols ? BOTH : ROW) : (cols ? COL : NOEQUIL)), "the reported flag follows the documented ratio / magnitude thresholds");
                for (k = 0; k < nnz; ++k) {
                    double want = a0[k];
                    int jj = 0;
                    for (j = 0; j < N; ++j) if (k >= colptr[j] && k < colptr[j + 1]) jj = j;
                    if (rows && cols) want = a0[k] * (c[jj] * r[rowind[k]]);
                    else if (rows) want = a0[k] * r[rowind[k]];
                    else if (cols) want = a0[k] * c[jj];
                    vh_assert_eq(a[k], want, "A is scaled exactly as the reported flag says (not at all for NOEQUIL)");
                }
            }
#endif
        }
    }
    VH_WITNESS();
    return 0;
}
