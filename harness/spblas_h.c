/* spblas_h.c -- C19 (and C01(a)): sparse kernels against their dense definitions, ordered field.
 * MODE 1  sp_dgemv  y := alpha*op(A)*x + beta*y   concrete M x N pattern, TR in N/T/C, INCX, INCY
 * MODE 2  sp_dtrsv  four variants on constructed well-formed factors (supernode partition SUPS,
 *                   sub-block rows LPAT, U pattern UPAT; values symbolic)
 * MODE 3  dlangs    'M', '1'/'O', 'I'
 * MODE 4  dCompRow_to_CompCol, dCopy_CompCol_Matrix, dCreate_CompCol_Matrix (entries preserved / aliased)
 * MODE 5  sp_dgemm  (column-by-column use of sp_dgemv)
 */
#include "slu_mt_ddefs.h"
#include "vh.h"
int vh_log_i; double vh_log_d;
#include "env_stubs.h"
#ifndef N
#define N 3
#endif
#ifndef M
#define M N
#endif
#ifndef MODE
#define MODE 1
#endif
extern double dlangs(char *, SuperMatrix *);   /* not declared in slu_mt_ddefs.h */
int_t sp_ienv(int_t i) { return 1; }
int xerbla_(char *s, int *i) { vh_assert(0, "xerbla_ called on valid arguments"); return 0; }
double dlamch_(char *c) { return 2.2250738585072014e-308; }
#define VH_REAL double
#include "refblas.h"
static int pat(int i, int j) { return (int)(((unsigned long)PAT >> (i + j * M)) & 1UL); }
static double ab(double x) { return x < 0 ? -x : x; }
static double mx(double a, double b) { return a > b ? a : b; }

#if MODE == 2 || MODE == 6
#include "wf_lu.h"
/* constructed well-formed factors: supernode sizes SUPS (sum N); in supernode s the rows below the diagonal
   block are the rows r > last column with bit (r + N*s) of LPAT set, stored in DESCENDING order (any order is
   legal); U(i,j) above the block of column j present iff bit (i + N*j) of UPAT; all values symbolic */
static SuperMatrix L, U;
static void build_factors(void)
{
    static const int sups[] = SUPS;
    static double lval[2 * N * N + 2], uval[N * N + 1];
    static int_t lsub[2 * N * N + 2], xlsub[N + 1], xlsub_end[N + 1], xlusup[N + 1], xlusup_end[N + 1];
    static int_t supno[N + 1], xsup[N + 1], xsup_end[N + 1], usub[N * N + 1], xusub[N + 1], xusub_end[N + 1];
    static SCPformat Ls; static NCPformat Us;
    int ns = 0, f = 0, nl = 0, nv = 0, nu = 0, s, i, j;
    for (s = 0; f < N; ++s) {
        int w = sups[s], e = f + w, nsupr, r;
        xsup[s] = f; xsup_end[s] = e; xlsub[f] = nl;
        for (r = f; r < e; ++r) lsub[nl++] = r;
        for (r = N - 1; r >= e; --r) if ((LPAT >> (r + N * s)) & 1) lsub[nl++] = r;
        xlsub_end[f] = nl; nsupr = nl - xlsub[f];
        for (j = f; j < e; ++j) { supno[j] = s; xlusup[j] = nv; for (r = 0; r < nsupr; ++r) lval[nv++] = vh_double(); xlusup_end[j] = nv; }
        for (j = f; j < e; ++j) { xusub[j] = nu; for (i = 0; i < f; ++i) if ((UPAT >> (i + N * j)) & 1) { usub[nu] = i; uval[nu++] = vh_double(); } xusub_end[j] = nu; }
        f = e; ns = s + 1;
    }
    supno[N] = ns - 1;
    Ls.nnz = 0; Ls.nsuper = ns - 1; Ls.nzval = lval; Ls.nzval_colbeg = xlusup; Ls.nzval_colend = xlusup_end; Ls.rowind = lsub;
    Ls.rowind_colbeg = xlsub; Ls.rowind_colend = xlsub_end; Ls.col_to_sup = supno; Ls.sup_to_colbeg = xsup; Ls.sup_to_colend = xsup_end;
    Us.nnz = nu; Us.nzval = uval; Us.rowind = usub; Us.colbeg = xusub; Us.colend = xusub_end;
    L.Stype = SLU_SCP; L.Dtype = SLU_D; L.Mtype = SLU_TRLU; L.nrow = N; L.ncol = N; L.Store = &Ls;
    U.Stype = SLU_NCP; U.Dtype = SLU_D; U.Mtype = SLU_TRU; U.nrow = N; U.ncol = N; U.Store = &Us;
}
#endif

VH_MAIN
{
    int i, j, k;
#if MODE != 2
    static double a[M * N + 1], Ad[M][N];
    static int_t rowind[M * N + 1], colptr[N + 1];
    int nnz = 0;
    SuperMatrix A; static NCformat st;
    for (j = 0; j < N; ++j) { colptr[j] = nnz; for (i = 0; i < M; ++i) { Ad[i][j] = 0; if (pat(i, j)) { rowind[nnz] = i; a[nnz] = vh_double(); Ad[i][j] = a[nnz]; ++nnz; } } }
    colptr[N] = nnz;
    st.nnz = nnz; st.nzval = a; st.rowind = rowind; st.colptr = colptr;
    A.Stype = SLU_NC; A.Dtype = SLU_D; A.Mtype = SLU_GE; A.nrow = M; A.ncol = N; A.Store = &st;
#endif

#if MODE == 1
    {
#ifndef TR
#define TR 0
#endif
#ifndef INCX
#define INCX 1
#endif
#ifndef INCY
#define INCY 1
#endif
        const char *trs = "NTC";
        char tr[2];
        int lenx = TR ? M : N, leny = TR ? N : M, ax = INCX < 0 ? -INCX : INCX, ay = INCY < 0 ? -INCY : INCY;
        static double x[3 * (M > N ? M : N) + 1], y[3 * (M > N ? M : N) + 1], y0[3 * (M > N ? M : N) + 1];
        double alpha = vh_double(), beta = vh_double();
        tr[0] = trs[TR]; tr[1] = 0;
        for (k = 0; k < 3 * (M > N ? M : N) + 1; ++k) { x[k] = vh_double(); y[k] = vh_double(); y0[k] = y[k]; }
        sp_dgemv(tr, alpha, &A, x, INCX, beta, y, INCY);
        for (i = 0; i < leny; ++i) {
            double s = 0;
            int iy = INCY > 0 ? i * ay : (leny - 1 - i) * ay;
            for (j = 0; j < lenx; ++j) {
                int jx = INCX > 0 ? j * ax : (lenx - 1 - j) * ax;
                s += (TR ? Ad[j][i] : Ad[i][j]) * x[jx];
            }
            vh_assert_eq(y[iy], alpha * s + beta * y0[iy], "y = alpha*op(A)*x + beta*y entrywise");
        }
        for (k = 0; k < 3 * (M > N ? M : N) + 1; ++k) {   /* elements between the strides are untouched */
            int used = 0;
            for (i = 0; i < leny; ++i) if (k == (INCY > 0 ? i * ay : (leny - 1 - i) * ay)) used = 1;
            if (!used) vh_assert_eq(y[k], y0[k], "elements of y outside the stride are untouched");
        }
    }
#elif MODE == 2
    {
        static double x[N], x0[N];
        int_t info = 0;
#ifndef VAR
#define VAR 0
#endif
        const char *uplo = (VAR == 0 || VAR == 2) ? "L" : "U", *tr = (VAR < 2) ? "N" : "T", *dg = (VAR == 0 || VAR == 2) ? "U" : "N";
        build_factors();
        lu_expand(N, &L, &U);
        for (i = 0; i < N; ++i) { vh_assume(vh_Ud[i][i] != 0); x[i] = vh_double(); x0[i] = x[i]; }
        sp_dtrsv((char *)uplo, (char *)tr, (char *)dg, &L, &U, x, &info);
        vh_assert(info == 0, "sp_dtrsv succeeds on valid arguments");
        for (i = 0; i < N; ++i) {
            double sacc = 0;
            for (j = 0; j < N; ++j) {
                double t = (VAR == 0) ? vh_Ld[i][j] : (VAR == 1) ? vh_Ud[i][j] : (VAR == 2) ? vh_Ld[j][i] : vh_Ud[j][i];
                sacc += t * x[j];
            }
            vh_assert_eq(sacc, x0[i], "op(T) * x_out == x_in entrywise (T = L with unit diagonal, or U)");
        }
    }
#elif MODE == 3
    {
        double vM, v1, vO, vI, rM = 0.0, r1 = 0.0, rI = 0.0;
        vM = dlangs("M", &A); v1 = dlangs("1", &A); vO = dlangs("O", &A); vI = dlangs("I", &A);
        for (j = 0; j < N; ++j) { double s = 0.0; for (i = 0; i < M; ++i) { s += ab(Ad[i][j]); rM = mx(rM, ab(Ad[i][j])); } r1 = mx(r1, s); }
        for (i = 0; i < M; ++i) { double s = 0; for (j = 0; j < N; ++j) s += ab(Ad[i][j]); rI = mx(rI, s); }
        vh_assert_eq(vM, rM, "max norm"); vh_assert_eq(v1, r1, "one norm"); vh_assert_eq(vO, r1, "one norm (O)"); vh_assert_eq(vI, rI, "infinity norm");
    }
#elif MODE == 4
    {
        /* row-wise copy of the same matrix -> column-wise; copy; create */
        static double ar[M * N + 1]; static int_t colind[M * N + 1], rowptr[M + 1];
        double *at = 0; int_t *rowind2 = 0, *colptr2 = 0;
        int nz = 0;
        SuperMatrix B2, C2; static double bval[M * N + 1]; static int_t brow[M * N + 1], bcol[N + 1]; static NCformat bst;
        for (i = 0; i < M; ++i) { rowptr[i] = nz; for (j = 0; j < N; ++j) if (pat(i, j)) { colind[nz] = j; ar[nz] = Ad[i][j]; ++nz; } }
        rowptr[M] = nz;
        dCompRow_to_CompCol(M, N, nz, ar, colind, rowptr, &at, &rowind2, &colptr2);
        vh_assert(colptr2[N] == nz, "conversion keeps the number of entries");
        for (j = 0; j < N; ++j) {
            vh_assert(colptr2[j] <= colptr2[j + 1], "column pointers monotone");
            for (k = colptr2[j]; k < colptr2[j + 1]; ++k) {
                vh_assert(rowind2[k] >= 0 && rowind2[k] < M && pat(rowind2[k], j), "converted entry is an entry of the matrix");
                vh_assert_eq(at[k], Ad[rowind2[k]][j], "converted value equals the original");
                for (i = colptr2[j]; i < k; ++i) vh_assert(rowind2[i] != rowind2[k], "no duplicates");
            }
            { int cnt = 0; for (i = 0; i < M; ++i) cnt += pat(i, j); vh_assert(colptr2[j + 1] - colptr2[j] == cnt, "every entry of the column is present"); }
        }
        bst.nzval = bval; bst.rowind = brow; bst.colptr = bcol;
        B2.Store = &bst;
        dCopy_CompCol_Matrix(&A, &B2);
        vh_assert(B2.nrow == M && B2.ncol == N && B2.Stype == A.Stype && B2.Dtype == A.Dtype && B2.Mtype == A.Mtype && bst.nnz == nnz, "copy keeps the header");
        for (k = 0; k < nnz; ++k) { vh_assert_eq(bval[k], a[k], "copy keeps values"); vh_assert(brow[k] == rowind[k], "copy keeps row indices"); }
        for (j = 0; j <= N; ++j) vh_assert(bcol[j] == colptr[j], "copy keeps column pointers");
        dCreate_CompCol_Matrix(&C2, M, N, nnz, a, rowind, colptr, SLU_NC, SLU_D, SLU_GE);
        { NCformat *cs = (NCformat *)C2.Store; vh_assert(cs->nzval == (void *)a && cs->rowind == rowind && cs->colptr == colptr && cs->nnz == nnz && C2.nrow == M && C2.ncol == N, "constructor aliases the caller's arrays"); }
        free(C2.Store); free(at); free(rowind2); free(colptr2);
    }
#elif MODE == 6
    {
        /* reciprocal pivot growth = min over the first NCOLS columns of max|A(:,j)| / max|U(:,j)|, recomputed densely */
        static const int_t pc[N] = VH_PERMC;
        static int_t perm_c[N];
        double got, ref = 1.0 / 2.2250738585072014e-308;
#ifndef NCOLS
#define NCOLS N
#endif
        build_factors();
        lu_expand(N, &L, &U);
        for (j = 0; j < N; ++j) perm_c[j] = pc[j];
        got = dPivotGrowth(NCOLS, &A, perm_c, &L, &U);
        for (j = 0; j < N; ++j) if (j < NCOLS) {
            double ma = 0, mu = 0; int oc = 0;
            for (k = 0; k < N; ++k) if (perm_c[k] == j) oc = k;
            for (i = 0; i < N; ++i) ma = mx(ma, ab(Ad[i][oc]));
            for (i = 0; i <= j; ++i) mu = mx(mu, ab(vh_Ud[i][j]));
            if (mu == 0) { if (1.0 < ref) ref = 1.0; } else if (ma / mu < ref) ref = ma / mu;
        }
        vh_assert_eq(got, ref, "reciprocal pivot growth equals min_j max|A(:,j)| / max|U(:,j)| over the leading columns");
    }
#elif MODE == 5
    {
        static double b[N * 2], c[M * 2 + 2], c0[M * 2 + 2];
        double alpha = vh_double(), beta = vh_double();
        for (k = 0; k < N * 2; ++k) b[k] = vh_double();
        for (k = 0; k < M * 2 + 2; ++k) { c[k] = vh_double(); c0[k] = c[k]; }
        sp_dgemm("N", M, 2, N, alpha, &A, b, N, beta, c, M + 1);
        for (k = 0; k < 2; ++k) for (i = 0; i < M; ++i) { double s = 0; for (j = 0; j < N; ++j) s += Ad[i][j] * b[j + k * N];
            vh_assert_eq(c[i + k * (M + 1)], alpha * s + beta * c0[i + k * (M + 1)], "C = alpha*A*B + beta*C entrywise"); }
        vh_assert_eq(c[M], c0[M], "padding row of C untouched");
    }
#endif
    VH_WITNESS();
    return 0;
}
