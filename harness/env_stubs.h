/* env_stubs.h -- environment of the library as seen by the solver harnesses.
 * Every stub here is part of the claim and is listed in the evidence files.
 *   pthread_mutex_*      no-ops (critical sections are atomic steps of the harness)
 *   pthread_create/join  synchronous call + counters
 *   SuperLU_timer_/usertimer_  constant 0 (timings never feed control flow)
 *   superlu_abort_and_exit     observable event vh_aborted, then path ends
 *   getenv               controlled by VH_GETENV_NONNULL
 */
#ifndef VH_ENV_STUBS_H
#define VH_ENV_STUBS_H
#include <pthread.h>
#include "vh.h"

int vh_creates, vh_joins, vh_aborted, vh_mutex_depth;

int pthread_mutex_init(pthread_mutex_t *m, const pthread_mutexattr_t *a) { return 0; }
int pthread_mutex_destroy(pthread_mutex_t *m) { return 0; }
int pthread_mutex_lock(pthread_mutex_t *m) { ++vh_mutex_depth; return 0; }
int pthread_mutex_unlock(pthread_mutex_t *m) { --vh_mutex_depth; return 0; }
#ifndef VH_OWN_PTHREAD_CREATE
int pthread_create(pthread_t *t, const pthread_attr_t *a, void *(*f)(void *), void *arg)
{
    ++vh_creates;
    f(arg);
    return 0;
}
int pthread_join(pthread_t t, void **st) { ++vh_joins; return 0; }
#endif
double SuperLU_timer_(void) { return 0.0; }
double usertimer_(void) { return 0.0; }
#ifndef VH_OWN_ABORT
void superlu_abort_and_exit(char *msg)
{
    vh_aborted = 1;
#ifdef VH_ABORT_IS_FAILURE
    vh_assert(0, "the library aborted (SUPERLU_ABORT) on a valid call with sufficient size estimates");
#endif
#ifdef VH_CBMC
    __CPROVER_assume(0);
#else
    printf("REPLAY: library abort: %s\n", msg);
    exit(4);
#endif
}
#endif
/* hooks added to /repo under XIAOYELI_SUPERLU_MT_VERIF (H1 pmemory.c, H2 await.c) */
#ifndef VH_OWN_AWAIT
void slu_mt_verif_await(volatile int_t *status)
{   /* workers run one after the other here: nobody could release the column */
    vh_assert(*status == 0, "await() on a column that no running worker will release");
    vh_assume(*status == 0);
}
#endif
#ifndef VH_OWN_LUSUP
int_t vh_lusup_high;
void slu_mt_verif_lusup(int_t jcol, int_t fsupc, int_t new_end, pxgstrf_shared_t *sh)
{
    if (new_end > vh_lusup_high) vh_lusup_high = new_end;
}
#endif
#ifdef VH_CBMC
/* message formatting of the abort macro: no effect on the checked behaviour */
int sprintf(char *s, const char *f, ...) { return 0; }
char *getenv(const char *name)
{
#ifdef VH_GETENV_NONNULL
    static char one[2] = "1";
    return one;
#else
    return (char *)0;
#endif
}
#endif
#endif
