/* refblas.h -- index-based reference BLAS standing in for the vendor BLAS (OpenBLAS is
 * an external, trusted component of the USE_VENDOR_BLAS build).  Written from the BLAS
 * specification; checked against 6-line dense references in the C19/C02 kernel queries.
 * Prefix macro RB(x) gives d- or s- names.  incx/incy are honoured (positive).
 */
#ifndef VH_REFBLAS_H
#define VH_REFBLAS_H
#ifndef VH_REAL
#define VH_REAL double
#endif
#ifdef VH_SINGLE
#define RB(x) s##x
#define IRB(x) is##x
#else
#define RB(x) d##x
#define IRB(x) id##x
#endif
static int rb_is(const char *c, char u) { return *c == u || *c == (char)(u + 32); }

int RB(trsv_)(char *uplo, char *trans, char *diag, int *n, VH_REAL *a, int *lda, VH_REAL *x, int *incx)
{
    int nn = *n, L = *lda, ix = *incx, i, j;
    int up = rb_is(uplo, 'U'), tr = !rb_is(trans, 'N'), unit = rb_is(diag, 'U');
    if (!tr) {
        if (up) { for (j = nn - 1; j >= 0; --j) { if (!unit) x[j * ix] = x[j * ix] / a[j + j * L];
                    for (i = 0; i < j; ++i) x[i * ix] -= x[j * ix] * a[i + j * L]; } }
        else    { for (j = 0; j < nn; ++j) { if (!unit) x[j * ix] = x[j * ix] / a[j + j * L];
                    for (i = j + 1; i < nn; ++i) x[i * ix] -= x[j * ix] * a[i + j * L]; } }
    } else {
        if (up) { for (j = 0; j < nn; ++j) { VH_REAL t = x[j * ix];
                    for (i = 0; i < j; ++i) t -= a[i + j * L] * x[i * ix];
                    if (!unit) t = t / a[j + j * L]; x[j * ix] = t; } }
        else    { for (j = nn - 1; j >= 0; --j) { VH_REAL t = x[j * ix];
                    for (i = nn - 1; i > j; --i) t -= a[i + j * L] * x[i * ix];
                    if (!unit) t = t / a[j + j * L]; x[j * ix] = t; } }
    }
    return 0;
}

int RB(gemv_)(char *trans, int *m, int *n, VH_REAL *alpha, VH_REAL *a, int *lda, VH_REAL *x, int *incx,
              VH_REAL *beta, VH_REAL *y, int *incy)
{
    int mm = *m, nn = *n, L = *lda, ix = *incx, iy = *incy, i, j;
    if (rb_is(trans, 'N')) {
        for (i = 0; i < mm; ++i) { VH_REAL t = 0; for (j = 0; j < nn; ++j) t += a[i + j * L] * x[j * ix];
            y[i * iy] = (*alpha) * t + (*beta) * y[i * iy]; }
    } else {
        for (j = 0; j < nn; ++j) { VH_REAL t = 0; for (i = 0; i < mm; ++i) t += a[i + j * L] * x[i * ix];
            y[j * iy] = (*alpha) * t + (*beta) * y[j * iy]; }
    }
    return 0;
}

/* only the variants the library uses: side L, trans N */
int RB(trsm_)(char *side, char *uplo, char *transa, char *diag, int *m, int *n, VH_REAL *alpha,
              VH_REAL *a, int *lda, VH_REAL *b, int *ldb)
{
    int mm = *m, nn = *n, L = *lda, LB = *ldb, i, j, k;
    int up = rb_is(uplo, 'U'), unit = rb_is(diag, 'U');
    for (k = 0; k < nn; ++k) {
        VH_REAL *x = b + k * LB;
        for (i = 0; i < mm; ++i) x[i] = (*alpha) * x[i];
        if (up) { for (j = mm - 1; j >= 0; --j) { if (!unit) x[j] = x[j] / a[j + j * L];
                    for (i = 0; i < j; ++i) x[i] -= x[j] * a[i + j * L]; } }
        else    { for (j = 0; j < mm; ++j) { if (!unit) x[j] = x[j] / a[j + j * L];
                    for (i = j + 1; i < mm; ++i) x[i] -= x[j] * a[i + j * L]; } }
    }
    return 0;
}

/* trans N,N only */
int RB(gemm_)(char *ta, char *tb, int *m, int *n, int *k, VH_REAL *alpha, VH_REAL *a, int *lda,
              VH_REAL *b, int *ldb, VH_REAL *beta, VH_REAL *c, int *ldc)
{
    int i, j, l;
    for (j = 0; j < *n; ++j)
        for (i = 0; i < *m; ++i) {
            VH_REAL t = 0;
            for (l = 0; l < *k; ++l) t += a[i + l * (*lda)] * b[l + j * (*ldb)];
            c[i + j * (*ldc)] = (*alpha) * t + (*beta) * c[i + j * (*ldc)];
        }
    return 0;
}

VH_REAL RB(asum_)(int *n, VH_REAL *x, int *incx)
{ VH_REAL s = 0; int i; for (i = 0; i < *n; ++i) s += x[i * (*incx)] < 0 ? -x[i * (*incx)] : x[i * (*incx)]; return s; }
int IRB(amax_)(int *n, VH_REAL *x, int *incx)
{ int k = 0, i; VH_REAL m = -1; for (i = 0; i < *n; ++i) { VH_REAL v = x[i * (*incx)] < 0 ? -x[i * (*incx)] : x[i * (*incx)]; if (v > m) { m = v; k = i; } } return k + 1; }
int RB(copy_)(int *n, VH_REAL *x, int *incx, VH_REAL *y, int *incy)
{ int i; for (i = 0; i < *n; ++i) y[i * (*incy)] = x[i * (*incx)]; return 0; }
int RB(axpy_)(int *n, VH_REAL *al, VH_REAL *x, int *incx, VH_REAL *y, int *incy)
{ int i; for (i = 0; i < *n; ++i) y[i * (*incy)] += (*al) * x[i * (*incx)]; return 0; }
#endif
