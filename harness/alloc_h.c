/* alloc_h.c -- C14(i): the user-workspace stack allocator, one operation from an ARBITRARY valid
 * state (so the result covers call histories of any length).  E1, bit-precise.
 *
 * Real code: p?memory.c (compiled with -Dstatic= so that the harness can set the file-scope
 * state `stack`, `whichspace`): ?user_malloc, ?user_free, p?gstrf_WorkInit, p?gstrf_WorkFree,
 * p?gstrf_SetupSpace, p?gstrf_expand (first-time allocation).
 *
 * Ghost state: two live blocks handed out earlier to OTHER owners, one at each end, at arbitrary
 * positions allowed by the representation invariant
 *     INV: 0 <= top1 <= top2 <= size, used == top1 + (size - top2),
 *          every live head block lies in [0, top1), every live tail block in [top2, size).
 * Each query runs one operation OP and asserts: the returned block(s) lie inside the buffer,
 * are disjoint from the ghost blocks and from each other, are aligned where the code promises
 * alignment, and INV holds again (with the new blocks added / the caller's own blocks removed).
 */
#include "slu_mt_ddefs.h"
#include "vh.h"
int vh_log_i; double vh_log_d;
#include "env_stubs.h"
#ifndef OP
#define OP 1
#endif
#ifndef SIZE
#define SIZE 256
#endif
typedef enum {HEAD, TAIL} stack_end_t;
typedef enum {SYSTEM, USER} LU_space_t;
typedef struct {           /* same layout as the file-scope type in p?memory.c */
    int_t  size;
    int_t  used;
    int_t  top1;
    int_t  top2;
    void *array;
    pthread_mutex_t lock;
} LU_stack_t;
extern LU_stack_t stack;
extern LU_space_t whichspace;
extern int_t no_expand;
extern int_t tail_users;   /* number of threads holding work storage at the tail (fix ae55ebe+1) */
extern void *duser_malloc(int_t, int_t);
extern void duser_free(int_t, int_t);
extern void pdgstrf_SetupSpace(void *, int_t);
extern void *pdgstrf_expand(int_t *, MemType, int_t, int_t, GlobalLU_t *);
static int vh_w = 1, vh_maxsup = 1, vh_rowblk = 1;
int_t sp_ienv(int_t i) { return i == 1 ? vh_w : i == 3 ? vh_maxsup : i == 4 ? vh_rowblk : 1; }

#if OP == 8
static char *buf;     /* OP 8: the caller's buffer holds ARBITRARY bytes (a recycled buffer), see main */
#else
static _Alignas(8) char buf[SIZE + 16];
#endif
static long gh0, gh1, gt0, gt1;      /* ghost head block [gh0,gh1), ghost tail block [gt0,gt1) (offsets) */

static int inv(void)
{
    return stack.top1 >= 0 && stack.top1 <= stack.top2 && stack.top2 <= stack.size &&
           stack.used == stack.top1 + (stack.size - stack.top2) &&
           gh0 >= 0 && gh0 <= gh1 && gh1 <= stack.top1 && gt0 >= stack.top2 && gt0 <= gt1 && gt1 <= stack.size &&
           tail_users >= 0 && tail_users <= 8 && (gt0 == gt1 || tail_users >= 1);
}
static long off(void *p) { return (char *)p - (char *)stack.array; }
static int inside(void *p, long len) { return p != 0 && off(p) >= 0 && off(p) + len <= stack.size; }
static int disjoint_from_ghosts(void *p, long len)
{
    long a = off(p), b = a + len;
    return (b <= gh0 || gh1 <= a || gh0 == gh1) && (b <= gt0 || gt1 <= a || gt0 == gt1);
}

VH_MAIN
{
#if OP == 8
    _Alignas(8) char storage[SIZE + 16];    /* uninitialised: arbitrary contents for the solver */
#endif
    int base = vh_int_in(0, 7);          /* the caller's buffer may start at any alignment */
#if OP == 8
    buf = storage;
#ifndef VH_CBMC
    memset(storage, 0xA5, sizeof storage);  /* native replay: some non-zero garbage */
#endif
#endif
    int_t size = vh_int_in(0, SIZE);
    whichspace = USER;
    stack.array = buf + base; stack.size = size;
    stack.top1 = vh_int(); stack.top2 = vh_int(); stack.used = vh_int();
    gh0 = vh_int(); gh1 = vh_int(); gt0 = vh_int(); gt1 = vh_int(); tail_users = vh_int();
    vh_assume(inv());
#if OP == 8
    vh_assume(stack.top1 == 0 && stack.top2 == size && gt0 == gt1 && gh0 == gh1 && tail_users == 0);   /* first worker on a fresh stack: the subject here is the CONTENTS */
#endif
#if OP == 1      /* ?user_malloc at either end */
    {
        int_t bytes = vh_int_in(0, SIZE + 8), end = vh_int_in(0, 1);
        int_t t1 = stack.top1, t2 = stack.top2;
        void *p = duser_malloc(bytes, end);
        if (p) {
            vh_assert(inside(p, bytes), "block inside the caller's buffer");
            vh_assert(off(p) >= t1 && off(p) + bytes <= t2, "block taken from the free middle part");
            vh_assert(disjoint_from_ghosts(p, bytes), "block disjoint from live blocks");
        } else vh_assert(bytes + (t1 + size - t2) >= size, "request refused only when the buffer cannot hold it");
        vh_assert(inv(), "representation invariant preserved");
    }
#elif OP == 2    /* ?user_free of the caller's own most recent block */
    {
        int_t end = vh_int_in(0, 1);
        int_t bytes = vh_int_in(0, SIZE);
        /* the caller owns the innermost `bytes` of that end, beyond the ghost block */
        if (end == HEAD) vh_assume(bytes <= stack.top1 - gh1); else vh_assume(bytes <= gt0 - stack.top2);
        duser_free(bytes, end);
        vh_assert(inv(), "representation invariant preserved (other owners' blocks still covered)");
    }
#elif OP == 3    /* per-thread work storage: p?gstrf_WorkInit */
    {
        int_t n = vh_int_in(1, 3), w = vh_int_in(1, 2);
        int_t *iw = 0; double *dw = 0;
        int_t t2 = stack.top2, r, users0 = tail_users;
        long isz, dsz;
        vh_w = w; vh_maxsup = vh_int_in(1, 2); vh_rowblk = vh_int_in(1, 2);
        isz = (long)(2 * w + 5 + NO_MARKER) * n * sizeof(int_t);
        dsz = (long)(n * w + SUPERLU_MAX(2 * n, (vh_maxsup + vh_rowblk) * w)) * sizeof(double);
        r = pdgstrf_WorkInit(n, w, &iw, &dw);
#ifdef WITNESS
        vh_assume(r == 0 && ((unsigned long)(buf + base + t2 - isz - dsz) & 7) != 0);   /* the witness must be a successful, misaligned request */
#endif
        if (r == 0) {
            vh_assert(inside(iw, isz) && inside(dw, dsz), "work arrays inside the caller's buffer");
            vh_assert(off(iw) + isz <= t2 && off(dw) + dsz <= off(iw), "work arrays taken from the free part, not overlapping each other");
            vh_assert(disjoint_from_ghosts(iw, isz) && disjoint_from_ghosts(dw, dsz), "work arrays disjoint from live blocks");
            vh_assert(off(dw) >= stack.top1, "work arrays do not reach into the head part");
            vh_assert(((unsigned long)dw & 7) == 0, "real work array is 8-byte aligned");
            /* the new blocks are live now: the invariant must cover them */
            vh_assert(off(dw) >= stack.top2, "bookkeeping covers the new blocks (a later request cannot be given this memory again)");
            gt0 = stack.top2;
            vh_assert(tail_users == users0 + 1, "the thread is counted as a holder of tail storage");
        } else vh_assert(r > n, "failure is reported as bytes + n");
        vh_assert(stack.top1 >= 0 && stack.top1 <= stack.top2 && stack.top2 <= stack.size &&
                  stack.used == stack.top1 + (stack.size - stack.top2) && gt1 <= stack.size && gh1 <= stack.top1 &&
                  (r != 0 || gt0 >= stack.top2), "representation invariant preserved");
    }
#elif OP == 8    /* what the worker starts on: WorkInit + the two Set*Work routines on a buffer with arbitrary old contents.
                    "results match the internally-allocated mode": the arrays the factorization reads before writing
                    (dense[], tempv[]: accumulated into; repfnz[]: tested against EMPTY) are cleared whatever the buffer held */
    {
        int_t n = vh_int_in(1, 2), w = 1;
        int_t *iw = 0; double *dw = 0, *dense = 0, *tempv = 0;
        int_t *segrep, *parent, *xplore, *repfnz, *panel_lsub, *marker, *lbusy, r, k, nt;
        vh_w = w; vh_maxsup = vh_int_in(1, 2); vh_rowblk = vh_int_in(1, 2);
        nt = SUPERLU_MAX(2 * n, (vh_maxsup + vh_rowblk) * w);
        r = pdgstrf_WorkInit(n, w, &iw, &dw);
        vh_assume(r == 0 && ((unsigned long)iw & 3) == 0);   /* a refused request is OP 3's subject; an lwork that leaves the integer array misaligned is the caller's error on x86-tolerant terms and is left out */
        pxgstrf_SetIWork(n, w, iw, &segrep, &parent, &xplore, &repfnz, &panel_lsub, &marker, &lbusy);
        pdgstrf_SetRWork(n, w, dw, &dense, &tempv);
        vh_assert(dense == dw && tempv == dw + n * w && repfnz == iw + 4 * n, "work arrays carved out of the storage WorkInit returned");
        for (k = 0; k < n * w; ++k) vh_assert(dense[k] == 0.0, "dense[] starts out as zeros whatever the caller's buffer held");
        for (k = 0; k < nt; ++k) vh_assert(tempv[k] == 0.0, "tempv[] starts out as zeros whatever the caller's buffer held");
        for (k = 0; k < n * w; ++k) vh_assert(repfnz[k] == EMPTY, "repfnz[] starts out EMPTY whatever the caller's buffer held");
    }
#elif OP == 4    /* a thread gives its work storage back while ANOTHER thread's work storage is live */
    {
        static GlobalLU_t Glu;
        /* the caller's own blocks are the innermost part of the tail: [top2, gt0); the ghost tail block
           [gt0, gt1) belongs to a thread that is still computing */
        vh_assume(gt1 > gt0 && tail_users >= 2 && gt0 > stack.top2);   /* the caller and at least one other thread hold tail storage */
        pdgstrf_WorkFree((int_t *)(buf + base + stack.top2), (double *)(buf + base + stack.top2), &Glu);
        vh_assert(stack.top2 <= gt0, "storage of a thread that is still running stays allocated (top2 does not move past it)");
        vh_assert(inv(), "representation invariant preserved");
    }
#elif OP == 6    /* the LAST thread gives its work storage back: the whole tail is free again */
    {
        static GlobalLU_t Glu;
        vh_assume(gt1 == gt0 && tail_users == 1);
        gt0 = gt1 = stack.size;
        pdgstrf_WorkFree((int_t *)(buf + base + stack.top2), (double *)(buf + base + stack.top2), &Glu);
        vh_assert(stack.top2 == stack.size && tail_users == 0, "tail completely free after the last thread");
        vh_assert(inv(), "representation invariant preserved");
    }
#elif OP == 7    /* a first-time factorization with a caller-supplied workspace starts from an empty stack,
                    whatever an earlier call left behind (also C18) */
    {
        int_t lw = vh_int_in(1, SIZE);
        pdgstrf_SetupSpace(buf + base, lw);
        vh_assert(whichspace == USER, "user-workspace mode selected");
        vh_assert(stack.size == lw && stack.top1 == 0 && stack.top2 == lw && stack.used == 0 && stack.array == (void *)(buf + base),
                  "every field of the stack is re-initialised: nothing of the previous call's bookkeeping survives");
        vh_assert(tail_users == 0, "no thread holds tail storage at the start");
    }
#elif OP == 5    /* first-time allocation of an L/U array through p?gstrf_expand (with alignment fix-up) */
    {
        static GlobalLU_t Glu;
        static ExpHeader exp_[4];
        extern ExpHeader *dexpanders;
        int_t len = vh_int_in(0, 12), len0 = len, t1 = stack.top1, t2 = stack.top2;
        MemType type = (MemType)vh_int_in(0, 3);
        long word = (type == LSUB || type == USUB) ? sizeof(int_t) : sizeof(double);
        void *p;
        dexpanders = exp_; no_expand = 0;
        p = pdgstrf_expand(&len, type, 0, 0, &Glu);
        if (p) {
            vh_assert(len == len0, "first allocation gives the requested length");
            vh_assert(inside(p, len * word) && off(p) >= t1 && off(p) + len * word <= t2, "array inside the free part of the buffer");
            vh_assert(disjoint_from_ghosts(p, len * word), "array disjoint from live blocks");
            if (type == LUSUP || type == UCOL) vh_assert(((unsigned long)p & 7) == 0, "real arrays are 8-byte aligned");
            vh_assert(off(p) + len * word <= stack.top1, "bookkeeping covers the new array");
            gh1 = stack.top1;
        }
        vh_assert(inv(), "representation invariant preserved");
    }
#endif
    VH_WITNESS();
    return 0;
}
