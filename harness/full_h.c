/* full_h.c -- whole simple driver p?gssv on a concrete sparsity pattern with symbolic
 * values (E2, GF(p)/Real), forced pivot preference (pivot_stub.h), typed allocator stubs.
 *
 * Real code executed: pdgssv, pdgstrf_init, sp_colorder (+sp_coletree, TreePostorder,
 * qrnzcnt), pdgstrf, pdgstrf_thread_init (pxgstrf_relax_snode, ParallelInit, dPresetMap),
 * pdgstrf_thread (scheduler, factor_snode, snode_dfs, snode_bmod, mark_busy_descends,
 * panel_dfs, panel_bmod, bmod1D, bmod2D, column_dfs, column_bmod, copy_to_ucol, pruneL,
 * Glu_alloc, NewNsuper, super_bnd_dfs), pdgstrf_thread_finalize (countnz, fixupL,
 * dCreate_*_Permuted, ParallelFinalize), dgstrs (+dlsolve/dusolve/dmatvec or reference
 * BLAS, sp_dtrsv), pxgstrf_finalize, Stat*.
 *
 * Query parameters (-D): N, PAT (bit i+j*N = entry (i,j)), VH_PIVPREF {..}, VH_PERMC {..},
 * VH_W, VH_RELAX, VH_MAXSUP, VH_ROWBLK, VH_COLBLK, NPROCS, NRHS, VH_NR (row-wise input),
 * VH_GETENV_NONNULL (dynamic supernode storage).
 */
#include "slu_mt_ddefs.h"
#include "vh.h"
#ifdef VH_SAT_MEMORY_ONLY
/* bit-precise run: IEEE equalities are not the claim here (rounding); keep only memory / integer assertions */
#undef vh_assert_eq
#define vh_assert_eq(a, b, msg) do { (void)(a); (void)(b); } while (0)
#endif
#ifndef N
#define N 3
#endif
#ifndef NRHS
#define NRHS 1
#endif
#ifndef NPROCS
#define NPROCS 1
#endif
#ifndef VH_W
#define VH_W 1
#endif
#ifndef VH_RELAX
#define VH_RELAX 1
#endif
#ifndef VH_MAXSUP
#define VH_MAXSUP 3
#endif
#ifndef VH_ROWBLK
#define VH_ROWBLK 2
#endif
#ifndef VH_COLBLK
#define VH_COLBLK 2
#endif
#ifndef VH_FILL6
#define VH_FILL6 (4 * N * N)
#endif
#ifndef VH_FILL7
#define VH_FILL7 (N * N)
#endif
#ifndef VH_FILL8
#define VH_FILL8 (4 * N * N)
#endif
#ifndef LDB
#define LDB N
#endif
#define VH_REAL double
#define VH_MEMINIT pdgstrf_MemInit
#define VH_WORKINIT pdgstrf_WorkInit
#define VH_WORKFREE pdgstrf_WorkFree
#define VH_EXPANDERS dexpanders
#define VH_PIVOTL pdgstrf_pivotL
#define VH_EXPECT_NONSINGULAR
int vh_log_i; double vh_log_d;
#define VH_OWN_LUSUP
#ifndef VH_ABORT_OK
#define VH_ABORT_IS_FAILURE
#endif
#include "env_stubs.h"
#include "mem_stubs.h"

int_t vh_permc_final[N] = VH_PERMC;
int vh_pat_at(int i, int j) { return (int)(((unsigned long)PAT >> (i + j * N)) & 1UL); }
#ifndef VH_NR
int vh_fpat_at(int i, int j) { return vh_pat_at(i, j); }
#else
int vh_fpat_at(int i, int j) { return vh_pat_at(j, i); }   /* the NR input is factored as the NC matrix A^T */
#endif
#include "pivot_stub.h"
#ifdef USE_VENDOR_BLAS
#include "refblas.h"
#else
/* sp_dtrsv's transposed paths call dtrsv_ even in the built-in-kernel configuration */
#include "refblas.h"
#endif

int_t sp_ienv(int_t ispec)
{
    switch (ispec) {
    case 1: return VH_W;
    case 2: return VH_RELAX;
    case 3: return VH_MAXSUP;
    case 4: return VH_ROWBLK;
    case 5: return VH_COLBLK;
    case 6: return VH_FILL6;
    case 7: return VH_FILL7;
    case 8: return VH_FILL8;
    }
    return -1;
}
int xerbla_(char *s, int *i) { vh_assert(0, "xerbla_ called on valid arguments"); return 0; }

#include "wf_lu.h"

/* ---- cut between factorization and solve (compositional, DESIGN 2.3) ------------------
 * pdgssv.c is compiled with -Ddgstrs=vh_dgstrs_cut.  At the cut the harness asserts the
 * producer contracts WF_LU and EQ_LU on what the real factorization handed over, then
 * replaces every stored value of L and U by a fresh symbolic value (the structure stays)
 * and lets the REAL dgstrs run on those.  After the driver returns, the solve is checked
 * against the fresh factors:  op(Pr^T L' U' Pc^T) X = B.  Together with EQ_LU this is
 * A X = B; the solver never has to push the rational functions of A through the solve.
 */
extern void dgstrs(trans_t, SuperMatrix *, SuperMatrix *, int_t *, int_t *, SuperMatrix *, Gstat_t *, int_t *);
static double (*vh_Fd)[N];
static double vh_L2[N][N], vh_U2[N][N];
static int vh_cut_calls; static trans_t vh_cut_trans;
void vh_dgstrs_cut(trans_t trans, SuperMatrix *L, SuperMatrix *U, int_t *perm_r, int_t *perm_c,
                   SuperMatrix *B, Gstat_t *Gstat, int_t *info)
{
    int i, j, k;
    ++vh_cut_calls; vh_cut_trans = trans;
    wf_lu_check(N, L, U, perm_r, perm_c);
    eq_lu_check(N, L, U, perm_r, perm_c, vh_Fd);
#ifndef VH_NO_CUT
    {
        SCPformat *Ls = (SCPformat *)L->Store; NCPformat *Us = (NCPformat *)U->Store;
        double *lv = (double *)Ls->nzval, *uv = (double *)Us->nzval;
        for (j = 0; j < N; ++j) {
            for (k = Ls->nzval_colbeg[j]; k < Ls->nzval_colend[j]; ++k) lv[k] = vh_double();
            for (k = Us->colbeg[j]; k < Us->colend[j]; ++k) uv[k] = vh_double();
        }
        lu_expand(N, L, U);
        for (i = 0; i < N; ++i) vh_assume(vh_Ud[i][i] != 0);   /* what info==0 guarantees */
    }
#endif
    for (i = 0; i < N; ++i) for (j = 0; j < N; ++j) { vh_L2[i][j] = vh_Ld[i][j]; vh_U2[i][j] = vh_Ud[i][j]; }
    dgstrs(trans, L, U, perm_r, perm_c, B, Gstat, info);
}

VH_MAIN
{
    static double aval[N * N], aval0[N * N], Ad[N][N], Fd[N][N], b[LDB * NRHS], b0[LDB * NRHS];
    static int_t rowind[N * N], rowind0[N * N], colptr[N + 1], colptr0[N + 1];
    static int_t perm_r[N];
    int i, j, k, nnz = 0;
    SuperMatrix A, L, U, B;
    int_t info = 77;

    /* ---- A: concrete pattern, symbolic values ---- */
#ifndef VH_NR
    for (j = 0; j < N; ++j) {
        colptr[j] = nnz;
        for (i = 0; i < N; ++i) {
            Ad[i][j] = 0;
            if (vh_pat_at(i, j)) { rowind[nnz] = i; aval[nnz] = vh_double();
#ifdef VH_CONCRETE_MASK
                /* larger shapes: most entries are pinned to fixed generic values (through an assumption, not a literal:
                   cbmc would fold literal arithmetic in IEEE double), a few stay symbolic */
                if ((VH_CONCRETE_MASK >> (i + j * N)) & 1UL) {
#ifndef VH_CBMC   /* native replay: a pinned entry takes its pinned value whatever the replay file / random generator supplied */
                    aval[nnz] = (double)(2 + ((i * 7 + j * 3) % 5)) + (double)(((i + 2) * (j + 3)) % 7 + 1) / 8.0 + (i == j ? 6.0 : 0.0);
#endif
                    vh_assume(aval[nnz] == (double)(2 + ((i * 7 + j * 3) % 5)) + (double)(((i + 2) * (j + 3)) % 7 + 1) / 8.0 + (i == j ? 6.0 : 0.0));
                }
#endif
                Ad[i][j] = aval[nnz]; ++nnz; }
        }
    }
    colptr[N] = nnz;
#else
    /* row-wise storage of the same matrix: rows of A are the "columns" of the arrays */
    for (i = 0; i < N; ++i) {
        colptr[i] = nnz;
        for (j = 0; j < N; ++j) {
            if (i == 0) { int ii; for (ii = 0; ii < N; ++ii) Ad[ii][j] = 0; }
        }
        for (j = 0; j < N; ++j)
            if (vh_pat_at(i, j)) { rowind[nnz] = j; aval[nnz] = vh_double(); ++nnz; }
    }
    colptr[N] = nnz;
    for (i = 0; i < N; ++i) for (k = colptr[i]; k < colptr[i + 1]; ++k) Ad[i][rowind[k]] = aval[k];
#endif
    for (k = 0; k < nnz; ++k) { aval0[k] = aval[k]; rowind0[k] = rowind[k]; }
    for (k = 0; k <= N; ++k) colptr0[k] = colptr[k];
    for (k = 0; k < LDB * NRHS; ++k) { b[k] = vh_double(); b0[k] = b[k]; }

    {
        static NCformat ast; static DNformat bst;
        ast.nnz = nnz; ast.nzval = aval; ast.rowind = rowind; ast.colptr = colptr;
#ifndef VH_NR
        A.Stype = SLU_NC;
#else
        A.Stype = SLU_NR;  /* NRformat has the same layout: nnz, nzval, colind, rowptr */
#endif
        A.Dtype = SLU_D; A.Mtype = SLU_GE; A.nrow = N; A.ncol = N; A.Store = &ast;
        bst.lda = LDB; bst.nzval = b;
        B.Stype = SLU_DN; B.Dtype = SLU_D; B.Mtype = SLU_GE; B.nrow = N; B.ncol = NRHS; B.Store = &bst;
    }

    for (i = 0; i < N; ++i) for (j = 0; j < N; ++j)
#ifndef VH_NR
        Fd[i][j] = Ad[i][j];
#else
        Fd[i][j] = Ad[j][i];
#endif
    vh_Fd = Fd;
    pdgssv(NPROCS, &A, vh_permc_final, perm_r, &L, &U, &B, &info);

#ifdef VH_SAT_MEMORY_ONLY
    if (vh_aborted) return 0;
#endif
    vh_assert(info == 0, "info == 0 for a matrix whose forced pivots are all non-zero");
    vh_assert(vh_lusup_calls >= 1, "slot-bound hook reached");
    vh_assert(vh_pivot_calls == N, "every column pivoted exactly once");
    vh_assert(vh_creates == NPROCS && vh_joins == NPROCS, "threads created == joined == nprocs");
    vh_assert(vh_mutex_depth == 0, "every lock released");

    /* A untouched */
    for (k = 0; k < nnz; ++k) {
        vh_assert_eq(aval[k], aval0[k], "A values unchanged");
        vh_assert(rowind[k] == rowind0[k], "A indices unchanged");
    }
    for (k = 0; k <= N; ++k) vh_assert(colptr[k] == colptr0[k], "A pointers unchanged");

    vh_assert(vh_cut_calls == 1, "solve called exactly once after a successful factorization");
#ifndef VH_NR
    vh_assert(vh_cut_trans == NOTRANS, "column-wise input solved with the factors as they are");
#else
    vh_assert(vh_cut_trans == TRANS, "row-wise input solved with the transposed factors");
#endif
    /* M := Pr^T L' U' Pc^T is the matrix that was factored (EQ_LU at the cut).  Column-wise
       input: M X = B  <=>  U' (Pc^T X) = L'^{-1} (Pr B).  Row-wise input (A = M^T):
       M^T X = B  <=>  L'^T (Pr X) = U'^{-T} (Pc^T B).  The right-hand sides are computed here
       by reference substitutions; this form keeps each row's identity to one division. */
    for (k = 0; k < NRHS; ++k) {
        double c[N], ref[N], xs[N];
        int q;
#ifndef VH_NR
        for (i = 0; i < N; ++i) { c[perm_r[i]] = b0[i + k * LDB]; xs[vh_permc_final[i]] = b[i + k * LDB]; }
        for (i = 0; i < N; ++i) { double t = c[i]; for (q = 0; q < i; ++q) t -= vh_L2[i][q] * ref[q]; ref[i] = t; }
        for (i = 0; i < N; ++i) {
            double s = 0;
            for (q = i; q < N; ++q) s += vh_U2[i][q] * xs[q];
            vh_assert_eq(s, ref[i], "U*(Pc^T X) == inv(L)*(Pr B): the driver solved A X = B");
        }
#else
        for (i = 0; i < N; ++i) { c[vh_permc_final[i]] = b0[i + k * LDB]; xs[perm_r[i]] = b[i + k * LDB]; }
        for (i = 0; i < N; ++i) { double t = c[i]; for (q = 0; q < i; ++q) t -= vh_U2[q][i] * ref[q]; ref[i] = t / vh_U2[i][i]; }
        for (i = 0; i < N; ++i) {
            double s = xs[i];
            for (q = i + 1; q < N; ++q) s += vh_L2[q][i] * xs[q];
            vh_assert_eq(s, ref[i], "L^T*(Pr X) == inv(U^T)*(Pc^T B): the driver solved A X = B for row-wise A");
        }
#endif
    }
    for (k = 0; k < NRHS; ++k)
        for (i = N; i < LDB; ++i) vh_assert_eq(b[i + k * LDB], b0[i + k * LDB], "padding rows of B untouched");
    VH_WITNESS();
    return 0;
}
