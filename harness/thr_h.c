/* thr_h.c -- C06 (and C04 thread part): the REAL worker loop p?gstrf_thread with every callee
 * replaced by a stub whose outcome is symbolic.  E1, bit-precise.
 *   - the scheduler stub hands this worker an arbitrary sequence of up to NPAN panels (any
 *     column order: with several workers a worker does NOT see panels in increasing order),
 *     each relaxed or regular, width 1..2;
 *   - p?gstrf_factor_snode / p?gstrf_pivotL stubs report "exactly zero pivot at column c" for
 *     an arbitrary subset of the columns they handle, the other steps succeed or (symbolically)
 *     fail with a memory error (> n).
 * Asserted on return: the worker's info is the SMALLEST singular position it met (or the memory
 * error if one occurred), every column of every panel it was given is released and every such
 * panel marked DONE unless a memory error ended the worker, work storage is given back exactly
 * once, and the loop terminates.
 * A second part checks the combination of the per-thread values in p?gstrf_thread_finalize.
 */
#include "slu_mt_ddefs.h"
#include "vh.h"
int vh_log_i; double vh_log_d;
#include "env_stubs.h"
#ifndef N
#define N 6
#endif
#ifndef NPAN
#define NPAN 3
#endif
int_t sp_ienv(int_t i) { return 1; }

static pxgstrf_shared_t sh;
static int ngiven, workinit, workfree, memerr_seen;
static int_t given[NPAN], gw[NPAN], smallest;       /* smallest singular position reported to this worker */
static int_t cur_panel_w;

#ifdef LEAKCHK
/* the worker's own heap requests (spa_marker, w_lsub_end through intMalloc) go through the library's USER_MALLOC /
   USER_FREE override points to these counting wrappers; the per-thread work storage may be REFUSED (caller workspace
   too small for this worker): every return of the worker must leave the balance at zero */
static int live, workinit_refused;
void *vh_malloc(size_t s) { ++live; return malloc(s); }
void vh_free(void *p) { if (p) --live; free(p); }
#endif
/* ---- stubs ---- */
int_t pdgstrf_WorkInit(int_t n, int_t w, int_t **iw, double **dw)
{
    static int_t iwork[(2 * 2 + 5 + NO_MARKER) * N]; static double dwork[8 * N];
    ++workinit;
#ifdef LEAKCHK
    if (vh_int_in(0, 1)) { workinit_refused = 1; *iw = 0; *dw = 0; return N + 1 + vh_int_in(0, 100); }
#endif
    *iw = iwork; *dw = dwork; return 0;
}
void pdgstrf_SetRWork(int_t n, int_t w, double *d, double **dense, double **tempv) { *dense = d; *tempv = d + 2 * N; }
void pdgstrf_WorkFree(int_t *iw, double *dw, GlobalLU_t *G) { ++workfree; }
float pdgstrf_memory_use(const int_t a, const int_t b, const int_t c) { return 0; }

void pxgstrf_scheduler(const int_t pnum, const int_t n, const int_t *etree, int_t *cur_pan, int_t *bcol, pxgstrf_shared_t *s)
{
    if (ngiven < NPAN && vh_int_in(0, 1)) {
        int_t j = vh_int_in(0, N - 1), w = vh_int_in(1, 2), k;
        vh_assume(j + w <= N);
        for (k = 0; k < NPAN; ++k) if (k < ngiven) vh_assume(j + w <= given[k] || given[k] + gw[k] <= j);   /* panels are disjoint */
        s->pan_status[j].size = w; s->pan_status[j].type = vh_int_in(0, 1) ? RELAXED_SNODE : REGULAR_PANEL;
        vh_assume(j >= 1 || s->pan_status[j].type == RELAXED_SNODE);   /* column 0 is a leaf: always part of a relaxed supernode */
        s->pan_status[j].state = BUSY;
        for (k = j; k < j + w; ++k) s->spin_locks[k] = 1;
        given[ngiven] = j; gw[ngiven] = w; ++ngiven;
        *cur_pan = j; *bcol = j;
        --s->tasks_remain;
    } else {
        *cur_pan = EMPTY;
        { static int polls; if (ngiven >= NPAN || ++polls >= 2 || vh_int_in(0, 1)) s->tasks_remain = 0; }   /* the other workers took the rest */
    }
}
static int_t outcome(int_t col, int_t n)        /* 0, "zero pivot at col", or a memory error */
{
    int c = vh_int_in(0, 9);
    if (c == 0) { if (smallest == 0 || col + 1 < smallest) smallest = col + 1; return col + 1; }
    return 0;
}
int_t pdgstrf_factor_snode(const int_t pnum, const int_t jcol, SuperMatrix *A, const double u, yes_no_t *usepr, int_t *perm_r,
                           int_t *inv_perm_r, int_t *inv_perm_c, int_t *xprune, int_t *marker, int_t *col_lsub, double *dense,
                           double *tempv, pxgstrf_shared_t *s, int_t *info)
{
    int_t w = s->pan_status[jcol].size, k, first = 0;
    if (vh_int_in(0, 19) == 0) { memerr_seen = 1; *info = N + 1 + vh_int_in(0, 100); return 0; }
    /* the real routine keeps the first zero pivot of the supernode */
    for (k = 0; k < 2; ++k) if (k < w) { int_t r = outcome(jcol + k, N); if (r && !first) first = r; }
    *info = first;
    return 0;
}
int_t pdgstrf_pivotL(const int_t pnum, const int_t jcol, const double u, yes_no_t *usepr, int_t *perm_r, int_t *inv_perm_r,
                     int_t *inv_perm_c, int_t *pivrow, GlobalLU_t *G, Gstat_t *Gs) { *pivrow = 0; return outcome(jcol, N); }
static int_t maybe_memerr(void) { if (vh_int_in(0, 29) == 0) { memerr_seen = 1; return N + 1 + vh_int_in(0, 100); } return 0; }
int_t pdgstrf_column_dfs(const int_t a, const int_t b, const int_t c, const int_t d, int_t *e, int_t *f, int_t *g, int_t h, int_t *i,
                         int_t *j, int_t *k, int_t *l, int_t *m, int_t *n, int_t *o, int_t *p, pxgstrf_shared_t *q) { return maybe_memerr(); }
int_t pdgstrf_column_bmod(const int_t a, const int_t b, const int_t c, const int_t d, int_t *e, int_t *f, double *g, double *h,
                          pxgstrf_shared_t *i, Gstat_t *j) { return maybe_memerr(); }
int_t pdgstrf_copy_to_ucol(const int_t a, const int_t b, const int_t c, const int_t *d, const int_t *e, const int_t *f, double *g,
                           pxgstrf_shared_t *h) { return maybe_memerr(); }
void pxgstrf_mark_busy_descends(int_t a, int_t b, int_t *c, pxgstrf_shared_t *d, int_t *e, int_t *f) {}
void pdgstrf_panel_dfs(const int_t a, const int_t b, const int_t c, const int_t d, SuperMatrix *e, int_t *f, int_t *g, int_t *h, int_t *i,
                       int_t *j, int_t *k, int_t *l, int_t *m, int_t *n, int_t *o, int_t *p, int_t *q, int_t *r, double *s, GlobalLU_t *t) { *j = 0; }
void pdgstrf_panel_bmod(const int_t a, const int_t b, const int_t c, const int_t d, const int_t e, int_t *f, int_t *g, int_t *h, int_t *i,
                        int_t *j, int_t *k, int_t *l, int_t *m, double *n, double *o, pxgstrf_shared_t *p) {}
void pxgstrf_pruneL(const int_t a, const int_t *b, const int_t c, const int_t d, const int_t *e, const int_t *f, int_t *g, int_t *h, GlobalLU_t *i) {}
void pxgstrf_super_bnd_dfs(const int_t a, const int_t b, const int_t c, const int_t d, const int_t e, SuperMatrix *f, int_t *g, int_t *h,
                           int_t *i, int_t *j, int_t *k, int_t *l, int_t *m, pxgstrf_shared_t *n) {}

VH_MAIN
{
    static superlumt_options_t opt; static GlobalLU_t Glu; static Gstat_t Gstat; static procstat_t procstat[2];
    static SuperMatrix A; static pdgstrf_threadarg_t arg;
    static pan_status_t pan_status[N + 1]; static volatile int_t spin_locks[N];
    static int_t etree[N], part_super_h[N], perm_r[N], ipc[N], ipr[N], xprune[N], ispruned[N], xlsub[N + 1], xlsub_end[N + 1], lsub[4];
    int k;
    A.nrow = N; A.ncol = N;
    opt.panel_size = 2; opt.diag_pivot_thresh = 1.0; opt.usepr = NO; opt.etree = etree; opt.part_super_h = part_super_h; opt.perm_r = perm_r;
    Glu.dynamic_snode_bound = NO; Glu.lsub = lsub; Glu.xlsub = xlsub; Glu.xlsub_end = xlsub_end;
    Gstat.procstat = procstat;
    sh.inv_perm_c = ipc; sh.inv_perm_r = ipr; sh.xprune = xprune; sh.ispruned = ispruned; sh.A = &A; sh.Glu = &Glu; sh.Gstat = &Gstat;
    sh.pan_status = pan_status; sh.spin_locks = spin_locks; sh.tasks_remain = vh_int_in(0, NPAN + 2);
    arg.pnum = 0; arg.info = 0; arg.superlumt_options = &opt; arg.pxgstrf_shared = &sh;

    pdgstrf_thread(&arg);

    vh_assert(workinit == 1, "work storage requested once");
#ifdef LEAKCHK
    if (workinit_refused) {
        vh_assert(arg.info > N, "refused work storage is reported as a value above n");
        vh_assert(workfree == 0, "work storage that was never obtained is not given back");
        vh_assert(live == 0, "a worker whose work storage was refused leaves none of its own heap blocks behind");
        vh_assert(ngiven == 0, "a worker without work storage takes no panel");
#ifdef WITNESS
        vh_assert(0, "WITNESS reached");
#endif
        return 0;
    }
#ifdef WITNESS
    vh_assume(0);   /* the twin of the leak query must reach the refused-storage return */
#endif
    if (!memerr_seen) vh_assert(live == 0, "the worker returns every heap block of its own on a return without memory error");
#endif
    if (!memerr_seen) {
        vh_assert(arg.info == smallest, "the worker reports the smallest zero-pivot position it met (0 if none)");
        vh_assert(workfree == 1, "work storage given back exactly once");
        for (k = 0; k < NPAN; ++k) if (k < ngiven) {
            int c;
            vh_assert(pan_status[given[k]].state == DONE, "every panel the worker was given is marked DONE");
            for (c = 0; c < 2; ++c) if (c < gw[k]) vh_assert(spin_locks[given[k] + c] == 0, "every column of it is released");
        }
    } else vh_assert(arg.info > N, "a memory error is reported as a value above n");
#ifdef WITNESS
    vh_assert(!(ngiven == NPAN && smallest > 0 && !memerr_seen), "WITNESS reached");
#endif
    return 0;
}
