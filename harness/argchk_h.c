/* argchk_h.c -- C15: every illegal argument record gives info = -i for the first offending
 * position, exactly one xerbla_ call with i, no work routine reached, no caller object
 * written, allocation balance zero.   E1 (bit-precise SAT); one query per routine/precision.
 *
 * -DPL=d|s|c|z selects the precision, -DROUTINE=1..8 the routine:
 *   1 p?gssv   2 p?gssvx   3 ?gstrs   4 ?gsrfs   5 ?gscon   6 ?gsequ   7 sp_?trsv   8 sp_?gemv
 * The oracle ("first offending position") is written from the routines' header comments.
 * Work routines are deliberately left without bodies: CBMC reports any reachable call of
 * a body-less function as a failed "no-body" property, so reaching one is detected.
 */
#if PLN == 1
#include "slu_mt_sdefs.h"
#define REAL float
#define ELEM float
#define DT SLU_S
#define N_(x) s##x
#define P_(x) ps##x
#define SP_(a, b) a##s##b
#elif PLN == 2
#include "slu_mt_ddefs.h"
#define REAL double
#define ELEM double
#define DT SLU_D
#define N_(x) d##x
#define P_(x) pd##x
#define SP_(a, b) a##d##b
#elif PLN == 3
#include "slu_mt_cdefs.h"
#define REAL float
#define ELEM complex
#define DT SLU_C
#define N_(x) c##x
#define P_(x) pc##x
#define SP_(a, b) a##c##b
#else
#include "slu_mt_zdefs.h"
#define REAL double
#define ELEM doublecomplex
#define DT SLU_Z
#define N_(x) z##x
#define P_(x) pz##x
#define SP_(a, b) a##z##b
#endif
#include "vh.h"
int vh_log_i; double vh_log_d;
#define VH_OWN_PTHREAD_CREATE
#include "env_stubs.h"

#define NB 3   /* bound on nrow/ncol for the R/C scans */

static int xerbla_calls, xerbla_arg, live_blocks;
int xerbla_(char *s, int *i) { ++xerbla_calls; xerbla_arg = *i; return 0; }
/* "work routine reached": the first things every routine does after its argument checks are to
   allocate or to ask sp_ienv; reaching one of them on an illegal record is the violation, and the
   path ends there (otherwise the solver would have to execute the whole routine on symbolic sizes) */
static void work_reached(void)
{
    vh_assert(0, "work started on an illegal argument record (an argument check is missing or out of order)");
    vh_assume(0);
}
void *vh_malloc(size_t s) { work_reached(); ++live_blocks; return malloc(s); }
void vh_free(void *p) { if (p) --live_blocks; free(p); }
int_t sp_ienv(int_t i) { work_reached(); return 1; }
int_t *intMalloc(int_t n) { work_reached(); return 0; }
int_t *intCalloc(int_t n) { work_reached(); return 0; }
#if PLN == 1
float *floatMalloc(int_t n) { work_reached(); return 0; }
float *floatCalloc(int_t n) { work_reached(); return 0; }
#elif PLN == 2
double *doubleMalloc(int_t n) { work_reached(); return 0; }
double *doubleCalloc(int_t n) { work_reached(); return 0; }
#elif PLN == 3
complex *complexMalloc(int_t n) { work_reached(); return 0; }
complex *complexCalloc(int_t n) { work_reached(); return 0; }
#else
doublecomplex *doublecomplexMalloc(int_t n) { work_reached(); return 0; }
doublecomplex *doublecomplexCalloc(int_t n) { work_reached(); return 0; }
#endif
void StatAlloc(const int_t n, const int_t nprocs, const int_t panel_size, const int_t relax, Gstat_t *G) { work_reached(); }
#if PLN == 1 || PLN == 3
double slamch_(char *c) { return 0.5; }   /* only used to form smlnum/bignum, which do not matter for legality */
#else
double dlamch_(char *c) { return 0.5; }
#endif

static int nd_enum(void) { return vh_int_in(-1, 6); }

static void any_matrix(SuperMatrix *M, void *store)
{
    M->Stype = (Stype_t)nd_enum(); M->Dtype = (Dtype_t)nd_enum(); M->Mtype = (Mtype_t)nd_enum();
    M->nrow = vh_int_in(-2, NB); M->ncol = vh_int_in(-2, NB); M->Store = store;
}
static int same_hdr(SuperMatrix *a, SuperMatrix *b)
{
    return a->Stype == b->Stype && a->Dtype == b->Dtype && a->Mtype == b->Mtype && a->nrow == b->nrow &&
           a->ncol == b->ncol && a->Store == b->Store;
}

VH_MAIN
{
    static SuperMatrix A, L, U, B, X, A0, L0, U0, B0, X0;
    static NCformat Ast, Ast0; static DNformat Bst, Xst, Bst0, Xst0; static SCPformat Lst; static NCPformat Ust;
    static ELEM aval[4], bval[NB * 2 + 2], xval[NB * 2 + 2];
    static int_t rowind[4], colptr[NB + 2], perm_c[NB + 1], perm_r[NB + 1], pc0[NB + 1], pr0[NB + 1];
    static REAL R[NB + 1], C[NB + 1], ferr[2], berr[2];
    static Gstat_t Gstat;
    int_t info = 12345;
    int expected = 0, i;

    any_matrix(&A, &Ast); any_matrix(&L, &Lst); any_matrix(&U, &Ust); any_matrix(&B, &Bst); any_matrix(&X, &Xst);
    Ast.nnz = vh_int_in(0, 4); Ast.nzval = aval; Ast.rowind = rowind; Ast.colptr = colptr;
    Bst.lda = vh_int_in(-1, NB + 1); Bst.nzval = bval; Xst.lda = vh_int_in(-1, NB + 1); Xst.nzval = xval;
    for (i = 0; i <= NB; ++i) { perm_c[i] = vh_int(); perm_r[i] = vh_int(); pc0[i] = perm_c[i]; pr0[i] = perm_r[i]; }
    A0 = A; L0 = L; U0 = U; B0 = B; X0 = X; Ast0 = Ast; Bst0 = Bst; Xst0 = Xst;

#if ROUTINE == 1
    {
        int_t nprocs = vh_int_in(-1, 3);
        if (nprocs <= 0) expected = 1;
        else if (A.nrow != A.ncol || A.nrow < 0 || (A.Stype != SLU_NC && A.Stype != SLU_NR) || A.Dtype != DT || A.Mtype != SLU_GE) expected = 2;
        else if (B.ncol < 0 || Bst.lda < (A.nrow > 1 ? A.nrow : 1)) expected = 7;
        vh_assume(expected != 0);
        P_(gssv)(nprocs, &A, perm_c, perm_r, &L, &U, &B, &info);
    }
#elif ROUTINE == 2
    {
        static superlumt_options_t opt;
        static superlu_memusage_t mu;
        int_t nprocs = vh_int_in(-1, 3);
        equed_t equed = (equed_t)nd_enum();
        REAL rpg = 0, rcond = 0;
        int rowequ, colequ, k;
        opt.fact = (fact_t)nd_enum(); opt.trans = (trans_t)nd_enum(); opt.refact = (yes_no_t)nd_enum();
        opt.usepr = (yes_no_t)nd_enum(); opt.lwork = vh_int_in(-3, 8); opt.nprocs = nprocs;
        for (k = 0; k <= NB; ++k) {        /* scale factors: only their sign matters for legality */
            int sr = vh_int_in(-1, 1), sc = vh_int_in(-1, 1);
            R[k] = (REAL)sr; C[k] = (REAL)sc;
        }
        rowequ = (equed == ROW || equed == BOTH); colequ = (equed == COL || equed == BOTH);
        if (nprocs <= 0) expected = 1;
        else if ((opt.fact != DOFACT && opt.fact != EQUILIBRATE && opt.fact != FACTORED) ||
                 (opt.trans != NOTRANS && opt.trans != TRANS && opt.trans != CONJ) ||
                 (opt.refact != YES && opt.refact != NO) || (opt.usepr != YES && opt.usepr != NO) || opt.lwork < -1) expected = 2;
        else if (A.nrow != A.ncol || A.nrow < 0 || (A.Stype != SLU_NC && A.Stype != SLU_NR) || A.Dtype != DT || A.Mtype != SLU_GE) expected = 3;
        else if (opt.fact == FACTORED && !(rowequ || colequ || equed == NOEQUIL)) expected = 6;
        else {
            if (opt.fact == FACTORED && rowequ) for (k = 0; k < A.nrow; ++k) if (R[k] <= 0 && !expected) expected = 7;
            if (opt.fact == FACTORED && colequ && !expected) for (k = 0; k < A.nrow; ++k) if (C[k] <= 0 && !expected) expected = 8;
            if (!expected) {
                if (B.ncol < 0 || Bst.lda < (A.nrow > 0 ? A.nrow : 0) || B.Stype != SLU_DN || B.Dtype != DT || B.Mtype != SLU_GE) expected = 11;
                else if (X.ncol < 0 || Xst.lda < (A.nrow > 0 ? A.nrow : 0) || B.ncol != X.ncol || X.Stype != SLU_DN || X.Dtype != DT || X.Mtype != SLU_GE) expected = 12;
            }
        }
        vh_assume(expected != 0);
        P_(gssvx)(nprocs, &opt, &A, perm_c, perm_r, &equed, R, C, &L, &U, &B, &X, &rpg, &rcond, ferr, berr, &mu, &info);
        for (k = 0; k <= NB; ++k) vh_assert(R[k] >= -1 && R[k] <= 1 && C[k] >= -1 && C[k] <= 1, "scale vectors untouched");
    }
#elif ROUTINE == 3
    {
        trans_t trans = (trans_t)nd_enum();
        if (trans != NOTRANS && trans != TRANS && trans != CONJ) expected = 1;
        else if (L.nrow != L.ncol || L.nrow < 0) expected = 3;
        else if (U.nrow != U.ncol || U.nrow < 0) expected = 4;
        else if (Bst.lda < (L.nrow > 0 ? L.nrow : 0)) expected = 6;
        vh_assume(expected != 0);
        N_(gstrs)(trans, &L, &U, perm_r, perm_c, &B, &Gstat, &info);
    }
#elif ROUTINE == 4
    {
        trans_t trans = (trans_t)nd_enum();
        equed_t equed = (equed_t)nd_enum();
        if (trans != NOTRANS && trans != TRANS && trans != CONJ) expected = 1;
        else if (A.nrow != A.ncol || A.nrow < 0 || A.Stype != SLU_NC || A.Dtype != DT || A.Mtype != SLU_GE) expected = 2;
        else if (L.nrow != L.ncol || L.nrow < 0 || L.Stype != SLU_SCP || L.Dtype != DT || L.Mtype != SLU_TRLU) expected = 3;
        else if (U.nrow != U.ncol || U.nrow < 0 || U.Stype != SLU_NCP || U.Dtype != DT || U.Mtype != SLU_TRU) expected = 4;
        else if (Bst.lda < (A.nrow > 0 ? A.nrow : 0) || B.Stype != SLU_DN || B.Dtype != DT || B.Mtype != SLU_GE) expected = 10;
        else if (Xst.lda < (A.nrow > 0 ? A.nrow : 0) || X.Stype != SLU_DN || X.Dtype != DT || X.Mtype != SLU_GE) expected = 11;
        vh_assume(expected != 0);
        N_(gsrfs)(trans, &A, &L, &U, perm_r, perm_c, equed, R, C, &B, &X, ferr, berr, &Gstat, &info);
    }
#elif ROUTINE == 5
    {
        char norm[2]; REAL anorm = 1, rcond = 0;
        int c = vh_int_in(0, 5);
        norm[0] = "1OoIiX"[c]; norm[1] = 0;
        if (c == 5) expected = 1;
        else if (L.nrow < 0 || L.nrow != L.ncol || L.Stype != SLU_SCP || L.Dtype != DT || L.Mtype != SLU_TRLU) expected = 2;
        else if (U.nrow < 0 || U.nrow != U.ncol || U.Stype != SLU_NCP || U.Dtype != DT || U.Mtype != SLU_TRU) expected = 3;
        vh_assume(expected != 0);
        N_(gscon)(norm, &L, &U, anorm, &rcond, &info);
    }
#elif ROUTINE == 6
    {
        REAL rowcnd = 0, colcnd = 0, amax = 0;
        if (A.nrow < 0 || A.ncol < 0 || A.Stype != SLU_NC || A.Dtype != DT || A.Mtype != SLU_GE) expected = 1;
        vh_assume(expected != 0);
        N_(gsequ)(&A, R, C, &rowcnd, &colcnd, &amax, &info);
    }
#elif ROUTINE == 7
    {
        char uplo[2], trans[2], diag[2];
        int a = vh_int_in(0, 4), b = vh_int_in(0, 4), c = vh_int_in(0, 4);
        uplo[0] = "LlUuX"[a]; trans[0] = "NnTtX"[b]; diag[0] = "UuNnX"[c]; uplo[1] = trans[1] = diag[1] = 0;
        if (a == 4) expected = 1;
        else if (b == 4) expected = 2;
        else if (c == 4) expected = 3;
        else if (L.nrow != L.ncol || L.nrow < 0) expected = 4;
        else if (U.nrow != U.ncol || U.nrow < 0) expected = 5;
        vh_assume(expected != 0);
        SP_(sp_, trsv)(uplo, trans, diag, &L, &U, xval, &info);
    }
#elif ROUTINE == 8
    {
        char trans[2];
        int b = vh_int_in(0, 6);
        int_t incx = vh_int_in(-2, 2), incy = vh_int_in(-2, 2);
        static ELEM alpha, beta;
        trans[0] = "NnTtCcX"[b]; trans[1] = 0;
        if (b == 6) expected = 1;
        else if (A.nrow < 0 || A.ncol < 0) expected = 3;
        else if (incx == 0) expected = 5;
        else if (incy == 0) expected = 8;
        vh_assume(expected != 0);
        SP_(sp_, gemv)(trans, alpha, &A, xval, incx, beta, bval, incy);
        info = -expected;      /* sp_?gemv reports through xerbla_ only */
        if (xerbla_calls == 1) xerbla_arg = xerbla_arg;
    }
#endif
    vh_assert(xerbla_calls == 1, "error handler called exactly once");
    vh_assert(xerbla_arg == expected, "error handler receives the first offending argument position");
    vh_assert(info == -expected, "info = -i for the first offending argument");
    vh_assert(same_hdr(&A, &A0) && same_hdr(&B, &B0) && same_hdr(&X, &X0) && same_hdr(&L, &L0) && same_hdr(&U, &U0),
              "matrix headers untouched");
    vh_assert(Ast.nnz == Ast0.nnz && Ast.nzval == Ast0.nzval && Ast.rowind == Ast0.rowind && Ast.colptr == Ast0.colptr &&
              Bst.lda == Bst0.lda && Bst.nzval == Bst0.nzval && Xst.lda == Xst0.lda && Xst.nzval == Xst0.nzval, "matrix stores untouched");
    for (i = 0; i <= NB; ++i) vh_assert(perm_c[i] == pc0[i] && perm_r[i] == pr0[i], "permutations untouched");
#if PLN <= 2
    for (i = 0; i < NB * 2 + 2; ++i) vh_assert(bval[i] == 0 && xval[i] == 0, "B and X values untouched");
#else
    for (i = 0; i < NB * 2 + 2; ++i) vh_assert(bval[i].r == 0 && bval[i].i == 0 && xval[i].r == 0 && xval[i].i == 0, "B and X values untouched");
#endif
    vh_assert(live_blocks == 0, "no memory retained");
    VH_WITNESS();
    return 0;
}
