/* con_h.c -- C12: REAL ?gscon with the estimator kernel ?lacon_ and the triangular solves replaced by
 * recording stubs: for every reverse-communication request (kase) the right pair of solves is applied in
 * the right order to the right vector, and rcond = 1 / (estimate * anorm).  E1, bit-precise.
 */
#include "slu_mt_ddefs.h"
#include "vh.h"
int vh_log_i; double vh_log_d;
#include "env_stubs.h"
#define NN 3
#define MAXIT 4
int_t sp_ienv(int_t i) { return 1; }
int xerbla_(char *s, int *i) { vh_assert(0, "xerbla_ called on valid arguments"); return 0; }
static int it, nsolve, kases[MAXIT + 1];
static char sv[4 * MAXIT + 4][3];
static double *sx[4 * MAXIT + 4], *lacon_x;
static double est_final;
int_t dlacon_(int_t *n, double *v, double *x, int_t *isgn, double *est, int_t *kase)
{
    vh_assert(*n == NN, "estimator is told the order of the matrix");
    if (it == 0) vh_assert(*kase == 0, "first call starts the reverse communication with kase = 0");
    lacon_x = x;
    if (it < MAXIT && vh_int_in(0, 1)) { *kase = vh_int_in(1, 2); kases[it] = *kase; ++it; }
    else { *kase = 0; *est = est_final; kases[it] = 0; }
    return 0;
}
int_t sp_dtrsv(char *uplo, char *trans, char *diag, SuperMatrix *L, SuperMatrix *U, double *x, int_t *info)
{
    sv[nsolve][0] = *uplo; sv[nsolve][1] = *trans; sv[nsolve][2] = *diag; sx[nsolve] = x; ++nsolve; *info = 0; return 0;
}
VH_MAIN
{
    static SuperMatrix L, U; static SCPformat Ls; static NCPformat Us;
    char norm[2]; int c = vh_int_in(0, 4), k, onenrm;
    double anorm = 4.0, rcond = -1.0; int_t info = -9;
    norm[0] = "1OoIi"[c]; norm[1] = 0; onenrm = c <= 2;
    L.Stype = SLU_SCP; L.Dtype = SLU_D; L.Mtype = SLU_TRLU; L.nrow = NN; L.ncol = NN; L.Store = &Ls;
    U.Stype = SLU_NCP; U.Dtype = SLU_D; U.Mtype = SLU_TRU; U.nrow = NN; U.ncol = NN; U.Store = &Us;
    est_final = vh_int_in(0, 1) ? 8.0 : 0.0;
    dgscon(norm, &L, &U, anorm, &rcond, &info);
    vh_assert(info == 0, "success");
    vh_assert(nsolve == 2 * it, "two triangular solves per request");
    for (k = 0; k < MAXIT; ++k) if (k < it) {
        int direct = (kases[k] == (onenrm ? 1 : 2));
        vh_assert(sx[2 * k] == lacon_x && sx[2 * k + 1] == lacon_x, "the solves are applied to the estimator's vector");
        if (direct) {
            vh_assert(sv[2 * k][0] == 'L' && sv[2 * k][1] == 'N' && sv[2 * k][2] == 'U', "inv(A)*x: first inv(L) (unit lower, no transpose)");
            vh_assert(sv[2 * k + 1][0] == 'U' && sv[2 * k + 1][1] == 'N' && sv[2 * k + 1][2] == 'N', "then inv(U)");
        } else {
            vh_assert(sv[2 * k][0] == 'U' && sv[2 * k][1] == 'T' && sv[2 * k][2] == 'N', "inv(A')*x: first inv(U')");
            vh_assert(sv[2 * k + 1][0] == 'L' && sv[2 * k + 1][1] == 'T' && sv[2 * k + 1][2] == 'U', "then inv(L')");
        }
    }
    if (est_final != 0.0) vh_assert(rcond == (1.0 / est_final) / anorm, "rcond = 1 / (norm estimate of inv(A) * anorm)");
    else vh_assert(rcond == 0.0, "rcond = 0 when the estimate is zero");
    VH_WITNESS();
    return 0;
}
