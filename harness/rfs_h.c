/* rfs_h.c -- C13 (decided part): REAL ?gsrfs with REAL sp_?gemv; the triangular solves and the norm
 * estimator are stubs (verified in C19 / outside, see C12).  Ordered field, concrete pattern, symbolic values.
 *  - every residual handed to the solve is B - op(A)*X for the CURRENT X, in the requested transpose sense,
 *    and the solve is asked for the same sense;
 *  - the returned berr is exactly the componentwise backward-error formula evaluated at the X that is
 *    returned (whatever corrections the solves produced: the stub returns arbitrary corrections);
 *  - at most ITMAX corrections.
 */
#include "slu_mt_ddefs.h"
#include "vh.h"
int vh_log_i; double vh_log_d;
#include "env_stubs.h"
#ifndef N
#define N 2
#endif
#ifndef TR
#define TR 0
#endif
#ifndef GROUP
#define GROUP 1
#endif
#ifndef NRHS
#define NRHS 1
#endif
#define EPS 1.1102230246251565e-16
#define SAFMIN 2.2250738585072014e-308
int_t sp_ienv(int_t i) { return 1; }
int xerbla_(char *s, int *i) { vh_assert(0, "xerbla_ called on valid arguments"); return 0; }
double dlamch_(char *c) { return (*c == 'E' || *c == 'e') ? EPS : SAFMIN; }
#define VH_REAL double
#include "refblas.h"
static int pat(int i, int j) { return (int)(((unsigned long)PAT >> (i + j * N)) & 1UL); }
static double ab(double x) { return x < 0 ? -x : x; }
static double Ad[N][N], *gx, *gb;
static int nsolve, colsolve[NRHS + 1], first_berr_gt_eps[NRHS + 1];
static int vh_col_done[NRHS + 1];
static double *vh_xbase, *vh_bbase;
static double opA(int i, int j) { return TR ? Ad[j][i] : Ad[i][j]; }

void dgstrs(trans_t trans, SuperMatrix *L, SuperMatrix *U, int_t *perm_r, int_t *perm_c, SuperMatrix *B, Gstat_t *G, int_t *info)
{
    double *w = (double *)((DNformat *)B->Store)->nzval;
    int i, j, col = 0;
    ++nsolve;
    /* which right-hand side is being refined: the residual matches exactly one column's B - op(A) X in general;
       the routine works through the columns in order, so count solves per column by the order of first use */
    for (col = 0; col < NRHS - 1; ++col) if (!vh_col_done[col]) break;
    ++colsolve[col];
    gx = vh_xbase + col * N; gb = vh_bbase + col * N;
#ifdef MAXCORR
    if (nsolve > MAXCORR) { vh_assume(0); }   /* bound of this query: at most MAXCORR corrections are followed */
#endif
    vh_assert(trans == (trans_t)TR, "the correction is solved in the requested transpose sense");
    for (i = 0; i < N; ++i) {
        double r = gb[i];
        for (j = 0; j < N; ++j) r -= opA(i, j) * gx[j];
        vh_assert_eq(w[i], r, "the residual handed to the solve is B - op(A)*X for the current X");
    }
    for (i = 0; i < N; ++i) w[i] = vh_double();    /* any correction */
#if defined(WITNESS) && defined(WIT_NSOLVE)
    /* witness twin only: a concrete run (a = b = 1, x0 = 0, corrections 2^-k: berr = 1, 1/3, 1/7, 1/15, 1/31, 1/63) with WIT_NSOLVE corrections */
    { double p = 1.0; for (i = 0; i < nsolve; ++i) p = p / 2.0; vh_assume(w[0] == p); }
#elif defined(PINCOL0)
    /* NRHS = 2, 1x1: the first column is pinned (a = b = 1, x0 = 0, one correction of exactly 1: berr 1 -> 0), the second is arbitrary */
    if (col == 0) vh_assume(w[0] == 1.0);
#elif defined(PINPREFIX)
    /* pinned-prefix query: a = b = 1, x0 = 0 and the first PINPREFIX corrections are 2^-k (each at least halves berr, so the
       loop keeps going); every later correction is arbitrary */
    if (nsolve <= PINPREFIX) { double p = 1.0; for (i = 0; i < nsolve; ++i) p = p / 2.0; vh_assume(w[0] == p); }
#endif
    *info = 0;
}
/* the error-bound estimator is entered once per column, after that column's refinement loop */
int_t dlacon_(int_t *n, double *v, double *x, int_t *isgn, double *est, int_t *kase) { int c; for (c = 0; c < NRHS; ++c) if (!vh_col_done[c]) { vh_col_done[c] = 1; break; } *kase = 0; *est = 1.0; return 0; }

VH_MAIN
{
    static double a[N * N + 1], b[N * NRHS], x[N * NRHS], x_in[N * NRHS], R[N], C[N], ferr[NRHS], berr[NRHS];
    static int_t rowind[N * N + 1], colptr[N + 1], perm_r[N], perm_c[N];
    SuperMatrix A, L, U, B, X; static NCformat st; static DNformat bst, xst; static SCPformat Ls; static NCPformat Us; static Gstat_t G;
    int i, j, nnz = 0; int_t info = 9;
    for (j = 0; j < N; ++j) { colptr[j] = nnz; for (i = 0; i < N; ++i) { Ad[i][j] = 0; if (pat(i, j)) { rowind[nnz] = i; a[nnz] = vh_double(); Ad[i][j] = a[nnz]; ++nnz; } } }
    colptr[N] = nnz;
    st.nnz = nnz; st.nzval = a; st.rowind = rowind; st.colptr = colptr;
    A.Stype = SLU_NC; A.Dtype = SLU_D; A.Mtype = SLU_GE; A.nrow = N; A.ncol = N; A.Store = &st;
    L.Stype = SLU_SCP; L.Dtype = SLU_D; L.Mtype = SLU_TRLU; L.nrow = N; L.ncol = N; L.Store = &Ls;
    U.Stype = SLU_NCP; U.Dtype = SLU_D; U.Mtype = SLU_TRU; U.nrow = N; U.ncol = N; U.Store = &Us;
    for (i = 0; i < N; ++i) { R[i] = 1.0; C[i] = 1.0; }
    for (i = 0; i < N * NRHS; ++i) { b[i] = vh_double(); x[i] = vh_double(); x_in[i] = x[i]; }
    bst.lda = N; bst.nzval = b; xst.lda = N; xst.nzval = x; gx = x; gb = b; vh_xbase = x; vh_bbase = b;
#if (defined(WITNESS) && defined(WIT_NSOLVE)) || defined(PINPREFIX) || defined(PINCOL0)
    vh_assume(a[0] == 1.0 && b[0] == 1.0 && x[0] == 0.0);
#endif
    B.Stype = SLU_DN; B.Dtype = SLU_D; B.Mtype = SLU_GE; B.nrow = N; B.ncol = NRHS; B.Store = &bst; X = B; X.Store = &xst;

    dgsrfs((trans_t)TR, &A, &L, &U, perm_r, perm_c, NOEQUIL, R, C, &B, &X, ferr, berr, &G, &info);

    vh_assert(info == 0, "success");
    vh_assert(nsolve <= 5 * NRHS, "at most ITMAX corrections per column");
#if GROUP == 3
    {   /* every column is treated like the first one: a correction is attempted whenever its backward error at the
           starting X exceeds machine epsilon (berr <= 1 always, so the 'decreased by a factor of 2 from 3' test holds) */
        int cidx;
        for (cidx = 0; cidx < NRHS; ++cidx) {
            double safe1 = (N + 1) * SAFMIN, safe2 = safe1 / EPS; int big = 0, regular = 1;
            for (i = 0; i < N; ++i) {
                double r = b[i + cidx * N], den = ab(b[i + cidx * N]), num;
                for (j = 0; j < N; ++j) { r -= opA(i, j) * x_in[j + cidx * N]; den += ab(opA(i, j)) * ab(x_in[j + cidx * N]); }
                num = (den > safe2) ? ab(r) : ab(r) + safe1;
                if (!(den > safe2)) regular = 0;      /* tiny denominators: the ratio may exceed 1.5 and refinement is legitimately skipped */
                if (den != 0.0 && num > EPS * den) big = 1;
            }
            if (big && regular) vh_assert(colsolve[cidx] >= 1, "refinement is attempted for every column whose starting backward error exceeds eps, not only for the first column");
        }
    }
#endif
#if GROUP == 2
    {
        /* berr = max_i num_i / den_i, stated without divisions: an upper bound of every ratio that is attained */
        double safe1 = (N + 1) * SAFMIN, safe2 = safe1 / EPS;
        int attained = 0, any = 0;
        for (i = 0; i < N; ++i) {
            double r = b[i], den = ab(b[i]), num;
            for (j = 0; j < N; ++j) { r -= opA(i, j) * x[j]; den += ab(opA(i, j)) * ab(x[j]); }
            if (den != 0.0) {
                num = (den > safe2) ? ab(r) : ab(r) + safe1;
                any = 1;
                vh_assert_le(num, berr[0] * den, "returned berr bounds every componentwise ratio |B - op(A) X|_i / (|op(A)||X| + |B|)_i of the returned X");
                if (berr[0] * den == num) attained = 1;
            }
        }
        vh_assert(berr[0] >= 0.0, "berr is non-negative");
        vh_assert(attained || (!any && berr[0] == 0.0) || (any && berr[0] == 0.0), "and is attained by one component (it is the maximum, not merely a bound)");
    }
#endif
#if defined(WITNESS) && defined(WIT_NSOLVE)
    vh_assume(nsolve == WIT_NSOLVE);   /* witness twin only: a run with exactly this many corrections exists */
#endif
    VH_WITNESS();
    return 0;
}
