/* read_h.c -- C20: the parsing code of the Harwell-Boeing / Rutherford-Boeing readers with the I/O
 * boundary replaced by a symbolic in-memory stream.  E1, bit-precise.
 * The reader file is compiled with -Dstatic= (dreadrb.c keeps these helpers static) and
 * -DRD(x)=... name mapping through RDPFX: dreadhb.c: dParseIntFormat, dParseFloatFormat, dReadVector,
 * dReadValues; dreadrb.c: dParseIntFormat, dParseFloatFormat, ReadVector, dReadValues.
 * MODE 1 integer edit descriptor  (nIw)      -> (n, w)
 * MODE 2 real edit descriptor     (nEw.d) (kPnEw.d), E/D/F either case -> (n, w)
 * MODE 3 ?ReadVector: every field of every line is converted and stored 0-based, in order
 * MODE 4 ?ReadValues: the exact field text (D replaced by E) reaches the converter, in order
 * atoi is a reference implementation in the harness; atof is a recording stub (decimal->binary accuracy is libc's business).
 */
#ifdef CPLX
#include "slu_mt_zdefs.h"
#else
#include "slu_mt_ddefs.h"
#endif
#include "vh.h"
int vh_log_i; double vh_log_d;
#include "env_stubs.h"
#ifndef MODE
#define MODE 1
#endif
#ifndef VECFN
#define VECFN dReadVector
#endif
extern int_t dParseIntFormat(char *, int_t *, int_t *);
extern int_t dParseFloatFormat(char *, int_t *, int_t *);
extern int_t VECFN(FILE *, int_t, int_t *, int_t, int_t);
#ifdef CPLX
extern int_t dReadValues(FILE *, int_t, doublecomplex *, int_t, int_t);
#else
extern int_t dReadValues(FILE *, int_t, double *, int_t, int_t);
#endif
int_t sp_ienv(int_t i) { return 1; }

/* ---- in-memory stream: fgets hands out the prepared lines one after the other ---- */
#define MAXL 4
#define LINELEN 24
static char lines[MAXL][LINELEN];
static int nlines, nextline;
char *fgets(char *s, int size, FILE *fp)
{
    int k;
    vh_assert(nextline < nlines, "the reader asks for a line only while data remains");
    if (nextline >= nlines) return 0;
    for (k = 0; k < LINELEN && k < size - 1; ++k) { s[k] = lines[nextline][k]; if (!s[k]) break; }
    s[k] = 0;
    ++nextline;
    return s;
}
#ifdef VH_CBMC
/* reference atoi (C standard: skip white space, optional sign, digits); natively libc's is used */
int atoi(const char *s)
{
    int v = 0, neg = 0;
    while (*s == ' ' || *s == '\t' || *s == '\n') s++;
    if (*s == '-') { neg = 1; s++; } else if (*s == '+') s++;
    while (*s >= '0' && *s <= '9') { v = v * 10 + (*s - '0'); s++; }
    return neg ? -v : v;
}
#endif
/* ---- recording converter ---- */
#define MAXF 10
static char seen[MAXF][8];
static int nseen;
double atof(const char *s)
{
    int k;
    vh_assert(nseen < MAXF, "not more conversions than fields");
    if (nseen < MAXF) { for (k = 0; k < 7 && s[k]; ++k) seen[nseen][k] = s[k]; seen[nseen][k] = 0; }
    /* k + 2^-40: exact in double, not representable in float (a value narrowed on its way is detected) */
    return (double)(nseen++) + 1.0 / 1099511627776.0;
}
static int put(char *b, int pos, int v) { if (v >= 10) b[pos++] = (char)('0' + v / 10); b[pos++] = (char)('0' + v % 10); return pos; }

VH_MAIN
{
#if MODE == 1 || MODE == 2
    char buf[21];
    int n = vh_int_in(1, 40), w = vh_int_in(1, 25), lead = vh_int_in(0, 3), pos = 0, i, flen = (MODE == 1) ? 16 : 20;
    int_t num = -1, size = -1;
    for (i = 0; i < 3; ++i) if (i < lead) buf[pos++] = ' ';
    buf[pos++] = '(';
#if MODE == 1
    pos = put(buf, pos, n); buf[pos++] = vh_int_in(0, 1) ? 'I' : 'i'; pos = put(buf, pos, w);
#else
    { int kp = vh_int_in(0, 2), d = vh_int_in(0, 16), letter = vh_int_in(0, 5);
      if (kp) { pos = put(buf, pos, kp); buf[pos++] = vh_int_in(0, 1) ? 'P' : 'p'; }
      pos = put(buf, pos, n); buf[pos++] = "EeDdFf"[letter]; pos = put(buf, pos, w); buf[pos++] = '.'; pos = put(buf, pos, d); }
#endif
    buf[pos++] = ')';
    vh_assume(pos <= flen);
    for (i = 0; i < 21; ++i) if (i >= pos) buf[i] = (i >= flen) ? 0 : ' ';
#if MODE == 1
    dParseIntFormat(buf, &num, &size);
#else
    dParseFloatFormat(buf, &num, &size);
#endif
    vh_assert(num == n, "repeat count of the edit descriptor");
    vh_assert(size == w, "field width of the edit descriptor");
#else
    /* n items, perline per line, persize characters each */
#ifdef CPLX
    int nz = vh_int_in(1, 2), n = 2 * nz;      /* nz complex entries = n real fields (real part, imaginary part) */
    int perline = vh_int_in(1, 3), persize = vh_int_in(2, 5), i, j, k, item = 0;
#else
    int n = vh_int_in(1, 4), perline = vh_int_in(1, 3), persize = vh_int_in(2, 5), i, j, k, item = 0;
#endif
    static int val[4]; static char field[4][8];
    vh_assume(perline * persize < LINELEN - 1);
    nlines = (n + perline - 1) / perline;
    for (i = 0; i < MAXL; ++i) for (k = 0; k < LINELEN; ++k) lines[i][k] = 0;
    for (i = 0; i < MAXL; ++i) if (i < nlines) {
        int p = 0;
        for (j = 0; j < 3; ++j) if (j < perline && item < n) {
#if MODE == 3
            int v = vh_int_in(1, 99);                               /* right-justified decimal, blanks before */
            val[item] = v;
            for (k = 0; k < 5; ++k) if (k < persize) {
                char c = ' ';
                if (k == persize - 1) c = (char)('0' + v % 10);
                else if (k == persize - 2 && v >= 10) c = (char)('0' + v / 10);
                lines[i][p + k] = c;
            }
            p += persize;
#else
            for (k = 0; k < 5; ++k) if (k < persize) {             /* arbitrary numeric field text */
                char c = "0123456789.+-EeDd "[vh_int_in(0, 17)];
                lines[i][p++] = c;
                field[item][k] = (c == 'D' || c == 'd') ? 'E' : c;
            }
            field[item][persize] = 0;
#endif
            ++item;
        }
        lines[i][p++] = '\n'; lines[i][p] = 0;
    }
    {
#if MODE == 3
        static int_t where[4];
        VECFN((FILE *)0, n, where, perline, persize);
        for (i = 0; i < 4; ++i) if (i < n) vh_assert(where[i] == val[i] - 1, "every integer field is converted and stored 0-based, in file order");
#else
#ifdef CPLX
        static doublecomplex zdest[2];
        double dest[4];
        dReadValues((FILE *)0, nz, zdest, perline, persize);
        for (i = 0; i < 2; ++i) { dest[2 * i] = zdest[i].r; dest[2 * i + 1] = zdest[i].i; }
#else
        static double dest[4];
        dReadValues((FILE *)0, n, dest, perline, persize);
#endif
        vh_assert(nseen == n, "one conversion per value");
        for (i = 0; i < 4; ++i) if (i < n) {
            vh_assert(dest[i] == (double)i + 1.0 / 1099511627776.0, "values stored in file order, unchanged");
            for (k = 0; k < 6; ++k) if (k <= persize) vh_assert(seen[i][k] == field[i][k], "the exact field text (D replaced by E) reaches the converter");
        }
#endif
        vh_assert(nextline == nlines, "exactly the data lines are consumed");
    }
#endif
    VH_WITNESS();
    return 0;
}
