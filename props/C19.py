"""C19 -- sparse kernels and format utilities agree with their dense definitions (DESIGN 3/C19)"""
from props.common import *
import random, itertools

SP_SRCS = ['dsp_blas2.c', 'dsp_blas3.c', 'dlangs.c', 'pdutil.c', 'dmyblas2.c', 'lsame.c', 'pmemory.c', 'pdmemory.c',
           ('util.c', ['-Dsuperlu_abort_and_exit=real_superlu_abort_and_exit'])]

def q_gemv(pid, m, n, pat, tr, incx, incy, vendor=False):
    return Query('%s.gemv.m%dn%d.p%x.t%d.x%d.y%d' % (pid, m, n, pat, tr, incx, incy), 'spblas_h.c', SP_SRCS,
                 defs={'MODE': 1, 'M': m, 'N': n, 'PAT': hex(pat), 'TR': tr, 'INCX': '(%d)' % incx, 'INCY': '(%d)' % incy},
                 engine='smt', mode='real', unwind=40, timeout=300, group='sp_dgemv')

def q_trsv(pid, n, sups, lpat, upat, var, vendor=False):
    return Query('%s.trsv.n%d.s%s.l%x.u%x.v%d%s' % (pid, n, ''.join(map(str, sups)), lpat, upat, var, '.vb' if vendor else ''), 'spblas_h.c', SP_SRCS,
                 defs={'MODE': 2, 'N': n, 'PAT': '0', 'SUPS': cinit(list(sups) + [0] * n), 'LPAT': hex(lpat) + 'UL', 'UPAT': hex(upat) + 'UL', 'VAR': var},
                 cflags=['-DUSE_VENDOR_BLAS'] if vendor else [], engine='smt', mode='real', unwind=40, timeout=300, group='sp_dtrsv on constructed factors')

def q_misc(pid, mode, m, n, pat):
    return Query('%s.%s.m%dn%d.p%x' % (pid, {3: 'langs', 4: 'format', 5: 'gemm'}[mode], m, n, pat), 'spblas_h.c', SP_SRCS,
                 defs={'MODE': mode, 'M': m, 'N': n, 'PAT': hex(pat)}, engine='smt', mode='real', unwind=40, timeout=300,
                 group={3: 'dlangs', 4: 'format utilities', 5: 'sp_dgemm'}[mode])

def compositions(n):
    if n == 0:
        return [()]
    return [(k,) + r for k in range(1, n + 1) for r in compositions(n - k)]

def plan(tier, seed, pid='C19'):
    rnd = random.Random(seed)
    qs = []
    # sp_dgemv: the implemented stride combinations (N needs incy==1, T/C need incx==1), all patterns n<=2, sampled 3x3 / rectangular
    shapes = [(m, n, p) for (m, n) in [(1, 1), (2, 2), (1, 2), (2, 1)] for p in range(1 << (m * n))]
    big = [(3, 3, p) for p in range(512)] + [(2, 3, p) for p in range(64)] + [(3, 2, p) for p in range(64)]
    shapes += big if tier == 'thorough' else rnd.sample(big, 30)
    for k, (m, n, p) in enumerate(shapes):
        for tr in (0, 1, 2):
            strides = [(1, 1), (2, 1), (-1, 1), (-2, 1)] if tr == 0 else [(1, 1), (1, 2), (1, -1), (1, -2)]
            for (ix, iy) in (strides if (m * n <= 4 or tier == 'thorough') else [strides[(k + tr) % 4]]):
                qs.append(q_gemv(pid, m, n, p, tr, ix, iy))
    # sp_dtrsv: every supernode partition of n<=3, sampled sub-block / U patterns, 4 variants, both BLAS configurations
    for n in (1, 2, 3):
        for sups in compositions(n):
            pats = [(rnd.getrandbits(n * n) | ((1 << (n * n)) - 1) * (t == 0), rnd.getrandbits(n * n) | ((1 << (n * n)) - 1) * (t == 0))
                    for t in range(3 if tier != 'thorough' else 12)]
            for (lp, up) in pats:
                for var in range(4):
                    qs.append(q_trsv(pid, n, sups, lp, up, var, vendor=False))
                    qs.append(q_trsv(pid, n, sups, lp, up, var, vendor=True))
    # wider factors: two or more supernodes that are wider than one column and have rows below their diagonal block
    full = lambda n: (1 << (n * n)) - 1
    for (n, sups) in [(4, (2, 2)), (5, (2, 2, 1)), (5, (2, 3)), (5, (3, 2))] + ([(6, (2, 2, 2)), (6, (3, 2, 1))] if tier == 'thorough' else []):
        for var in (range(4) if n == 4 else (0, 2)):    # at n=5 only the unit-lower solves finish (no divisions)
            for vendor in (False, True):
                qs.append(q_trsv(pid, n, sups, full(n), full(n), var, vendor=vendor))
    for mode in (3, 4, 5):
        ms = [(2, 2, p) for p in range(16)] + [(3, 3, 0x1ff), (3, 3, 0x0b5), (2, 3, 0x2d), (3, 2, 0x1e)]
        if tier == 'thorough':
            ms += [(3, 3, p) for p in range(0, 512, 3)]
        qs += [q_misc(pid, mode, m, n, p) for (m, n, p) in ms]
    return qs

META = {
    'level': 'model_checking',
    'engines': 'E2: cbmc symex of the real kernels -> SMT-LIB -> fp2alg Real -> z3 (5.1 and 4.8 side by side)',
    'bounds': {'sp_dgemv/sp_dgemm': 'm,n<=3 (n<=2 all patterns, 3x3/2x3/3x2 sampled quick / all thorough), trans N/T/C, strides +-1, +-2 in the implemented combinations, alpha and beta all reals (so 0 and 1 included)',
               'sp_dtrsv': 'n<=3 every supernode partition; n=4 all four variants, n=5 (thorough 6) the two unit-lower variants, dense factors with two or three wide supernodes; dense and sampled sub-block/U patterns, L/N/U, U/N/N, L/T/U, U/T/N, built-in kernels and vendor-BLAS stand-in',
               'dlangs': 'M, 1, O, I norms', 'format': 'dCompRow_to_CompCol, dCopy_CompCol_Matrix, dCreate_CompCol_Matrix'},
    'outside': ['rounding', 'Frobenius norm (the routine aborts with "Not implemented")',
                'stride combinations for which sp_?gemv itself aborts with "Not implemented" (incy != 1 for N, incx != 1 for T/C)', 'complex conjugation'],
    'assumptions': ['ordered-field reinterpretation of double', 'vendor BLAS represented by harness/refblas.h'],
    'trusted_base': ['cbmc 6.11', 'tools/fp2alg.py', 'z3 5.1.0 / 4.8.12', 'harness/refblas.h'],
}

def REPRESENTATIVE(tier):
    return [q_gemv('C19', 3, 3, 0x1ff, 0, 1, 1), q_trsv('C19', 3, (2, 1), 0x1ff, 0x1ff, 0)]
