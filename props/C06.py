"""C06 -- singular matrices are reported through info, never by crash or corruption (DESIGN 3/C06)"""
from props.common import *
from props.C02 import pivot_queries, PIV_SRCS

THR_SRCS = ['pdgstrf_thread.c', 'pmemory.c', ('util.c', ['-Dsuperlu_abort_and_exit=real_superlu_abort_and_exit'])]

def thr_query(pid, n, npan, timeout=900):
    q = Query('%s.thread.n%d.k%d' % (pid, n, npan), 'thr_h.c', THR_SRCS, defs={'N': n, 'NPAN': npan}, engine='sat', unwind=npan + 5,
              timeout=timeout, group='worker loop with symbolic callee outcomes')
    q.unwind_big = 16 * n + 8
    q.unwindset = {'ifill.0': 16 * n + 8}
    return q

def snode_query(pid, w, j0, prec='d'):
    return Query('%s.snode.%s.w%d.j%d' % (pid, prec, w, j0), 'snode_h.c', [('p%sgstrf_factor_snode.c' % prec, [])], defs={'W': w, 'J0': j0}, engine='sat', unwind=4 * w + 12,
                 timeout=300, group='relaxed supernode: first singular column reported, any subset of columns singular')

def nocand_query(pid, nsupc):
    return Query('%s.pivotL.nocand.c%d' % (pid, nsupc), 'pivot_h.c', PIV_SRCS,
                 defs={'NSUPC': nsupc, 'NSUPR': nsupc, 'DIAG': '(-1)', 'OLD': '(-1)', 'USEPR': 0, 'NOCAND': None}, engine='sat',
                 unwind=20, timeout=300, group='pivotL on a column without candidate rows')

def plan(tier, seed):
    qs = [thr_query('C06', 6, 2)]
    if tier == 'thorough':
        qs += [thr_query('C06', 6, 3, 3000), thr_query('C06', 8, 4, 6000)]
    qs += [nocand_query('C06', c) for c in (0, 1, 2)]
    # a relaxed supernode with any subset of its columns singular hands up the first one (real p?gstrf_factor_snode, d and z)
    qs += [snode_query('C06', w, j0) for (w, j0) in ((1, 0), (2, 1), (3, 1), (4, 0))]
    # the zero-pivot return of the real pivotL (all candidates exactly zero) is part of the pivotL unit spec
    qs += [q for q in pivot_queries('C06', 'quick') if '.u0' in q.name and '.c2.' not in q.name]
    return qs

META = {
    'level': 'model_checking',
    'engines': 'E1 (cbmc+MiniSat) for the worker loop and the no-candidate case; E2 (Real) for the pivotL unit',
    'bounds': {'worker loop': 'n=6 (thorough 8), up to 3 (4) panels handed to the worker in ANY column order, width 1..2, relaxed or regular, any subset of columns exactly singular, symbolic memory errors',
               'pivotL': 'supernode with 0..2 earlier columns; all-zero candidates (unit spec) and no candidate rows at all'},
    'outside': ['the numerical path that produces exact zeros (C02 covers the arithmetic)', 'structural-rank characterisation for generic values', 'expert-driver reaction (C07)'],
    'assumptions': ['callees of the worker loop are stubs with symbolic outcomes (each callee is verified in its own queries)'],
    'trusted_base': ['cbmc 6.11', 'MiniSat', 'tools/fp2alg.py', 'z3'],
}

def REPRESENTATIVE(tier):
    return [thr_query('C06', 6, 2)]
