"""C13 -- refinement returns truthful backward errors (decided part; DESIGN 3/C13)"""
from props.common import *
import random

RFS_SRCS = ['dgsrfs.c', 'dsp_blas2.c', 'dmyblas2.c', 'lsame.c', 'pmemory.c', 'pdmemory.c', ('util.c', ['-Dsuperlu_abort_and_exit=real_superlu_abort_and_exit'])]

def rfs_query(pid, n, pat, tr, maxcorr=1, group=1, nrhs=1, timeout=300):
    return Query('%s.rfs.n%d.p%x.t%d.c%d.g%d.r%d' % (pid, n, pat, tr, maxcorr, group, nrhs), 'rfs_h.c', RFS_SRCS, defs={'N': n, 'PAT': hex(pat), 'TR': tr, 'MAXCORR': maxcorr, 'GROUP': group, 'NRHS': nrhs}, engine='smt', mode='real',
                 unwind=40, timeout=timeout, group='dgsrfs: residual sense and truthfulness of berr')

def plan(tier, seed):
    qs = []
    # group 1: every residual handed to a correction solve is B - op(A) X for the current X, in the requested sense
    pats2 = list(range(1, 16)) if tier == 'thorough' else [0xf, 0x9, 0x7, 0xe, 0x6]
    for t in (0, 1, 2):
        qs.append(rfs_query('C13', 1, 1, t, maxcorr=2, group=1))
        qs += [rfs_query('C13', 2, p, t, maxcorr=2 if tier == 'thorough' else 1, group=1) for p in pats2]
    # group 2: the returned berr is the maximum componentwise ratio at the returned X (1x1 and diagonal 2x2:
    # the non-linear max/ratio reasoning did not finish on denser 2x2 patterns)
    for t in (0, 1, 2):
        qs.append(rfs_query('C13', 1, 1, t, maxcorr=1, group=2))
        q = rfs_query('C13', 1, 1, t, maxcorr=5, group=2, timeout=900)   # the whole refinement loop: up to ITMAX = 5 corrections
        q.witness_defs = {'WIT_NSOLVE': 5}
        qs.append(q)
        # the same loop entered through a pinned prefix (a = b = 1, x0 = 0, corrections 1/2, 1/4, ...): the last 5 - k corrections arbitrary
        for k in (4, 3):
            q = rfs_query('C13', 1, 1, t, maxcorr=5, group=2, timeout=900)
            q.name += '.pin%d' % k; q.defs['PINPREFIX'] = k
            q.witness_defs = {'WIT_NSOLVE': 5}
            qs.append(q)
        qs += [rfs_query('C13', 2, p, t, maxcorr=1, group=2) for p in ([0x9, 0x6] if tier != 'thorough' else [0x9, 0x6, 0x7, 0xe, 0xb, 0xd, 0xf])]
    # group 3: two right-hand sides, 1x1: the first column is pinned to a run with one correction, the second is arbitrary --
    # every column whose starting backward error exceeds eps gets its correction, like the first one
    for t in (0, 1, 2):
        q = rfs_query('C13', 1, 1, t, maxcorr=3, group=3, nrhs=2, timeout=600)
        q.defs['PINCOL0'] = None; q.name += '.pin0'
        qs.append(q)
    return qs

META = {
    'level': 'model_checking',
    'engines': 'E2 (Real): real dgsrfs + real sp_dgemv; dgstrs returns ARBITRARY corrections, dlacon_ ends at once',
    'bounds': {'matrices': 'residual sense: n<=2 (quick: 5 patterns, thorough: all 15); truthfulness of berr: 1x1 only (denser cases did not finish within the cap); all real values of A, B and the starting X', 'trans': 'N, T, C', 'right-hand sides': 'one per query, plus 1x1 with two right-hand sides where the first column is pinned to a one-correction run and the second is arbitrary', 'corrections': 'arbitrary values; 1x1: the whole loop (up to ITMAX = 5 corrections, a 5-correction run is the witness); 2x2: paths with at most 1 correction step (quick) are followed'},
    'outside': ['berr = O((n+1) eps) for well-conditioned matrices and "ferr dominates the true error": statements about rounding and about the Hager/Higham estimator, vacuous in exact arithmetic and NOT decided',
                'the scaling by R / C inside the ferr loop (equed != NOEQUIL)', 'n > 2'],
    'assumptions': ['ordered-field reinterpretation of double; machine constants exact'],
    'trusted_base': ['cbmc 6.11', 'tools/fp2alg.py', 'z3'],
}

def REPRESENTATIVE(tier):
    return [rfs_query('C13', 2, 0xf, 0)]
