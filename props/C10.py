"""C10 -- orderings are bijections; preprocessing yields A*Pc and its postordered etree (DESIGN 3/C10)"""
from props.common import *
import random

MALLOC = ['-UUSER_MALLOC', '-UUSER_FREE', '-DUSER_MALLOC(s)=vh_malloc(s)', '-DUSER_FREE(p)=vh_free(p)', '-include', '/verif/harness/vh_alloc.h']
ORD_SRCS = [(f, MALLOC) for f in ['get_perm_c.c', 'mmd.c', 'colamd.c', 'sp_colorder.c', 'sp_coletree.c', 'qrnzcnt.c', 'cholnzcnt.c', 'pmemory.c']] + \
           [('util.c', MALLOC + ['-Dsuperlu_abort_and_exit=real_superlu_abort_and_exit'])]

def perm_query(pid, m, n, pat, ispec):
    q = _perm_query(pid, m, n, pat, ispec)
    # mmd.c is f2c output: it rebases every array pointer by -1 (`--marker;`), i.e. forms a pointer one
    # element before the object.  That is the standard-level "out-of-bounds pointer" no run can observe;
    # the dereferences themselves stay fully checked (bounds / pointer checks are on).
    q.no_ptr_overflow = True
    return q

def _perm_query(pid, m, n, pat, ispec):
    return Query('%s.getperm.m%dn%d.p%x.o%d' % (pid, m, n, pat, ispec), 'ord_h.c', ORD_SRCS,
                 defs={'MODE': 1, 'M': m, 'N': n, 'PAT': hex(pat), 'ISPEC': ispec}, engine='sat', unwind=60, timeout=600,
                 group='get_perm_c(%d) %dx%d' % (ispec, m, n))

LOW4 = [(1, 0), (2, 0), (3, 0), (2, 1), (3, 1), (3, 2)]
P4 = [[(2, 0), (3, 0), (2, 1)], [(2, 0), (2, 1), (3, 2)], [(3, 0), (3, 1), (3, 2)], [(1, 0), (3, 2)], [(2, 1)], [(1, 0), (2, 1), (3, 2)]]
PC4 = [(0, 1, 2, 3), (3, 2, 1, 0), (1, 3, 0, 2), (2, 0, 3, 1), (0, 2, 1, 3), (3, 0, 2, 1)]
PC5 = [(0, 1, 2, 3, 4), (4, 3, 2, 1, 0), (2, 0, 3, 1, 4), (1, 4, 0, 2, 3)]
def flip(ents, sym):
    """column-etree mode: every other entry goes above the diagonal (the symmetric mode only sees A+A^T)"""
    return [(i, j) if (sym or t % 2 == 0) else (j, i) for t, (i, j) in enumerate(ents)]

def lowpat(n, ents):
    """full diagonal plus the given strictly lower entries (column-major bit i + j*n)"""
    p = 0
    for i in range(n): p |= 1 << (i + i * n)
    for (i, j) in ents: p |= 1 << (i + j * n)
    return p

COMPONENTS = {'iso': (1, []), 'edge': (2, [(0, 1)]), 'path3': (3, [(0, 1), (1, 2)]), 'path4': (4, [(0, 1), (1, 2), (2, 3)]),
              'star4': (4, [(0, 1), (0, 2), (0, 3)]), 'tri': (3, [(0, 1), (1, 2), (0, 2)]), 'k4': (4, [(0, 1), (0, 2), (0, 3), (1, 2), (1, 3), (2, 3)])}
def zoo_query(pid, n, rnd, ispec, k):
    """symmetric-structure n x n pattern (full diagonal) whose graph is a disjoint union of small components, vertices relabelled at random"""
    names = sorted(COMPONENTS)
    comp, left = [], n
    while left > 0:
        c = rnd.choice([c for c in names if COMPONENTS[c][0] <= left])
        comp.append(c); left -= COMPONENTS[c][0]
    if k % 4 == 0:      # make sure isolated vertices next to larger components occur often
        comp = ['iso', 'path3', 'tri'] + (['iso'] if n == 8 else [])
    lab = list(range(n)); rnd.shuffle(lab)
    ents, base = [], 0
    for c in comp:
        sz, es = COMPONENTS[c]
        ents += [(lab[base + a], lab[base + b]) for (a, b) in es]
        base += sz
    pat = 0
    for i in range(n): pat |= 1 << (i + i * n)
    for (i, j) in ents: pat |= (1 << (i + j * n)) | (1 << (j + i * n))
    q = perm_query(pid, n, n, pat, ispec)
    q.name += '.zoo%d' % k
    q.group = 'get_perm_c n=7..8, concrete component graphs (%s)' % ('MMD on A^T*A' if ispec == 1 else 'MMD on A^T+A')
    q.witness = (k % 10 == 0)
    return q

def colorder_query(pid, n, pat, sym, maxsup=4, timeout=900):
    return Query('%s.colorder.n%d.p%x.sym%d.ms%d' % (pid, n, pat, sym, maxsup), 'ord_h.c', ORD_SRCS,
                 defs={'MODE': 2, 'N': n, 'PAT': hex(pat), 'SYM': sym, 'VH_MAXSUP': maxsup}, engine='sat', unwind=4 * n + 6,
                 timeout=timeout, group='sp_colorder n=%d %s, symbolic input permutation' % (n, 'symmetric mode' if sym else 'column etree'))

def plan(tier, seed, pid='C10', sym_only=False):
    rnd = random.Random(seed)
    qs = []
    if not sym_only:
        for (m, n) in [(1, 1), (2, 2), (1, 2), (2, 1)]:
            for pat in range(1 << (m * n)):
                for o in (0, 1) + ((2,) if m == n else ()):
                    qs.append(perm_query(pid, m, n, pat, o))
        shapes3 = [(3, 3, p, o) for p in range(512) for o in (1, 2)] + [(2, 3, p, 1) for p in range(64)] + [(3, 2, p, 1) for p in range(64)]
        if tier != 'thorough':
            shapes3 = rnd.sample(shapes3, 60)
        qs += [perm_query(pid, m, n, p, o) for (m, n, p, o) in sorted(shapes3)]
    if not sym_only:
        # larger instances with concrete structure (decided by constant propagation in the symbolic executor): graphs made of
        # components -- isolated vertices, edges, paths, stars, triangles, cliques -- under random relabelling, n = 7..8 (the pattern is a 64-bit mask)
        for k in range(40 if tier != 'thorough' else 400):
            n = 7 + k % 2
            qs.append(zoo_query(pid, n, rnd, 1 + k % 2, k))
    for sym in ((1,) if sym_only else (0, 1)):
        for pat in range(16):
            qs.append(colorder_query(pid, 2, pat, sym, 1 + pat % 3))
        p3 = list(range(512)) if tier == 'thorough' else rnd.sample(range(512), 8)
        if tier != 'thorough' and not sym:
            # quick tier: the column-etree instances take 6-15 min each (query + reachability twin); keep the sparse ones with a
            # small supernode cap (observed 5-9 min), thorough runs all 512
            p3 = [pat for pat in p3 if bin(pat).count('1') <= 4 and 1 + pat % 4 <= 2]
        qs += [colorder_query(pid, 3, pat, sym, 1 + pat % 4, timeout=(1500 if not sym else 900)) for pat in sorted(p3)]
        # n=4, symbolic input permutation (all 24 in one query): forests with a two-child parent, chains, stars, isolated columns
        p4 = [lowpat(4, flip(e, sym)) for e in P4]
        if tier == 'thorough':
            p4 += [lowpat(4, flip([(i, j) for t, (i, j) in enumerate(LOW4) if (m >> t) & 1], sym)) for m in range(64)]
        if sym:
            for k, pat in enumerate(sorted(set(p4))):
                q = colorder_query(pid, 4, pat, sym, 1 + k % 4, timeout=1800)
                q.witness_defs = {'PCFIX': '0x3210'}   # reachability twin with one concrete permutation (the symbolic one does not finish as a satisfiable query)
                qs.append(q)
        else:
            # column-etree mode at n=4: the symbolic-permutation query exceeds the memory cap (A^T*A structure, qrnzcnt); concrete permutations
            for k, pat in enumerate(sorted(set(p4))):
                for pc in PC4[k % 2::2]:
                    q = colorder_query(pid, 4, pat, sym, 1 + k % 4)
                    q.defs['PCFIX'] = '0x' + ''.join('%x' % d for d in reversed(pc)); q.name += '.pc' + ''.join(map(str, pc))
                    q.group = 'sp_colorder n=4, concrete permutation, column etree'
                    q.witness = (k % 3 == 0)
                    qs.append(q)
        # n=5, concrete input permutations (structure fully concrete: decided by constant propagation)
        low5 = [(i, j) for j in range(5) for i in range(j + 1, 5)]
        m5 = list(range(1024)) if tier == 'thorough' else rnd.sample(range(1024), 40)
        for k, m in enumerate(sorted(m5)):
            q = colorder_query(pid, 5, lowpat(5, flip([low5[t] for t in range(10) if (m >> t) & 1], sym)), sym, 1 + k % 5)
            pc = PC5[k % len(PC5)]
            q.defs['PCFIX'] = '0x' + ''.join('%x' % d for d in reversed(pc)); q.name += '.pc' + ''.join(map(str, pc))
            q.group = 'sp_colorder n=5, concrete permutation, %s' % ('symmetric mode' if sym else 'column etree')
            q.witness = (k % 8 == 0)
            qs.append(q)
    # longest queries first (same queries, only the start order): the n=3 column-etree and n=4 instances take 8-13 min each
    qs.sort(key=lambda q: 0 if ('.colorder.n3.' in q.name and '.sym0.' in q.name) else 1 if '.colorder.n4.' in q.name else 2 if '.colorder.n3.' in q.name else 3)
    return qs

META = {
    'level': 'model_checking',
    'engines': 'E1: cbmc 6.11 bit-precise, MiniSat',
    'bounds': {'get_perm_c': 'options 0..2 (natural, MMD on A^T*A, MMD on A^T+A); every m x n pattern with m,n <= 2 and (quick: 60 sampled, thorough: all) patterns with m,n <= 3 incl. rectangular, empty rows/columns; plus 40 (thorough 400) concrete n=7..8 graphs built from isolated vertices, edges, paths, stars, triangles, cliques under random relabelling',
               'sp_colorder': 'n<=4 with the input permutation symbolic (all n! bijections in one query): n=2 all patterns, n=3 quick 8 sampled per mode (column-etree mode: those of them with at most 4 entries and supernode cap <= 2) / thorough all 512, n=4 six forests (two-child parent, chain, star, isolated columns; thorough + all 64 lower patterns) - symbolic permutation in symmetric mode, three concrete permutations each in column-etree mode (the symbolic query exceeds the memory cap there); n=5 with 4 concrete permutations on 40 (thorough 1024) full-diagonal patterns; symmetric mode on/off, max supernode size 1..5; in symmetric mode the reported counts equal the Cholesky column counts and reported supernodes nest'},
    'outside': ['option 3 (COLAMD): colamd.c carves its Row/Col records out of one int array by casts; symbolic execution of even a 2x2 instance did not finish in 600 s, so colamd.c is NOT encoded and nothing is claimed about it', 'n > 3', 'METIS orderings (not in this build)'],
    'assumptions': ['reference elimination tree computed in the harness by quadratic symbolic Cholesky on the boolean structure'],
    'trusted_base': ['cbmc 6.11', 'MiniSat'],
    'exhaustive_thorough': True,
}

def REPRESENTATIVE(tier):
    return [colorder_query('C10', 3, 0x1ff, 0), perm_query('C10', 3, 3, 0x1ff, 3)]
