"""C10 -- orderings are bijections; preprocessing yields A*Pc and its postordered etree (DESIGN 3/C10)"""
from props.common import *
import random

MALLOC = ['-UUSER_MALLOC', '-UUSER_FREE', '-DUSER_MALLOC(s)=vh_malloc(s)', '-DUSER_FREE(p)=vh_free(p)', '-include', '/verif/harness/vh_alloc.h']
ORD_SRCS = [(f, MALLOC) for f in ['get_perm_c.c', 'mmd.c', 'colamd.c', 'sp_colorder.c', 'sp_coletree.c', 'qrnzcnt.c', 'cholnzcnt.c', 'pmemory.c']] + \
           [('util.c', MALLOC + ['-Dsuperlu_abort_and_exit=real_superlu_abort_and_exit'])]

def perm_query(pid, m, n, pat, ispec):
    q = _perm_query(pid, m, n, pat, ispec)
    # mmd.c is f2c output: it rebases every array pointer by -1 (`--marker;`), i.e. forms a pointer one
    # element before the object.  That is the standard-level "out-of-bounds pointer" no run can observe;
    # the dereferences themselves stay fully checked (bounds / pointer checks are on).
    q.no_ptr_overflow = True
    return q

def _perm_query(pid, m, n, pat, ispec):
    return Query('%s.getperm.m%dn%d.p%x.o%d' % (pid, m, n, pat, ispec), 'ord_h.c', ORD_SRCS,
                 defs={'MODE': 1, 'M': m, 'N': n, 'PAT': hex(pat), 'ISPEC': ispec}, engine='sat', unwind=60, timeout=600,
                 group='get_perm_c(%d) %dx%d' % (ispec, m, n))

def colorder_query(pid, n, pat, sym, maxsup=4, timeout=900):
    return Query('%s.colorder.n%d.p%x.sym%d.ms%d' % (pid, n, pat, sym, maxsup), 'ord_h.c', ORD_SRCS,
                 defs={'MODE': 2, 'N': n, 'PAT': hex(pat), 'SYM': sym, 'VH_MAXSUP': maxsup}, engine='sat', unwind=4 * n + 6,
                 timeout=timeout, group='sp_colorder n=%d %s, symbolic input permutation' % (n, 'symmetric mode' if sym else 'column etree'))

def plan(tier, seed, pid='C10', sym_only=False):
    rnd = random.Random(seed)
    qs = []
    if not sym_only:
        for (m, n) in [(1, 1), (2, 2), (1, 2), (2, 1)]:
            for pat in range(1 << (m * n)):
                for o in (0, 1) + ((2,) if m == n else ()):
                    qs.append(perm_query(pid, m, n, pat, o))
        shapes3 = [(3, 3, p, o) for p in range(512) for o in (1, 2)] + [(2, 3, p, 1) for p in range(64)] + [(3, 2, p, 1) for p in range(64)]
        if tier != 'thorough':
            shapes3 = rnd.sample(shapes3, 60)
        qs += [perm_query(pid, m, n, p, o) for (m, n, p, o) in sorted(shapes3)]
    for sym in ((1,) if sym_only else (0, 1)):
        for pat in range(16):
            qs.append(colorder_query(pid, 2, pat, sym, 1 + pat % 3))
        p3 = list(range(512)) if tier == 'thorough' else rnd.sample(range(512), 8)
        qs += [colorder_query(pid, 3, pat, sym, 1 + pat % 4) for pat in sorted(p3)]
    return qs

META = {
    'level': 'model_checking',
    'engines': 'E1: cbmc 6.11 bit-precise, MiniSat',
    'bounds': {'get_perm_c': 'options 0..2 (natural, MMD on A^T*A, MMD on A^T+A); every m x n pattern with m,n <= 2 and (quick: 90 sampled, thorough: all) patterns with m,n <= 3 incl. rectangular, empty rows/columns',
               'sp_colorder': 'n<=3; pattern iterated (n=2 all; n=3 quick 8 sampled per mode, thorough all 512), input permutation symbolic (all n! bijections in one query), symmetric mode on/off, max supernode size 1..4'},
    'outside': ['option 3 (COLAMD): colamd.c carves its Row/Col records out of one int array by casts; symbolic execution of even a 2x2 instance did not finish in 600 s, so colamd.c is NOT encoded and nothing is claimed about it', 'n > 3', 'METIS orderings (not in this build)'],
    'assumptions': ['reference elimination tree computed in the harness by quadratic symbolic Cholesky on the boolean structure'],
    'trusted_base': ['cbmc 6.11', 'MiniSat'],
    'exhaustive_thorough': True,
}

def REPRESENTATIVE(tier):
    return [colorder_query('C10', 3, 0x1ff, 0), perm_query('C10', 3, 3, 0x1ff, 3)]
