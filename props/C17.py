"""C17 -- no resource leaks: a call gives back everything except what it returns (DESIGN 3/C17)"""
from props.common import *
from props.C10 import perm_query, colorder_query, ORD_SRCS
from props.C15 import arg_query, ROUT
import random

def leak(q, pid):
    q.name = q.name.replace('C10.', pid + '.leak.').replace('C15.', pid + '.leak.')
    q.defs['LEAKCHK'] = None
    q.group = 'allocation balance: ' + q.group
    return q

def plan(tier, seed):
    rnd = random.Random(seed)
    qs = []
    # ordering / preprocessing temporaries (get_perm_c, sp_colorder): counting USER_MALLOC / USER_FREE wrappers
    for (m, n) in [(1, 1), (2, 2)]:
        for pat in range(1 << (m * n)):
            for o in (0, 1, 2):
                qs.append(leak(perm_query('C10', m, n, pat, o), 'C17'))
    for pat in (rnd.sample(range(512), 30) if tier != 'thorough' else range(512)):
        qs.append(leak(perm_query('C10', 3, 3, pat, 1 + pat % 2), 'C17'))
    for sym in (0, 1):
        for pat in range(16):
            qs.append(leak(colorder_query('C10', 2, pat, sym), 'C17'))
    # illegal-argument returns retain nothing (same queries as C15: live_blocks == 0 is one of their assertions)
    qs += [leak(arg_query('C15', r, p), 'C17') for r in ROUT for p in 'dz']
    # worker loop: per-thread work storage is given back exactly once on every non-memory-error return (incl. singular)
    from props.C06 import thr_query
    qs.append(thr_query('C17', 6, 2))
    return qs

META = {
    'level': 'model_checking',
    'engines': 'E1: cbmc 6.11 bit-precise; USER_MALLOC/USER_FREE (the library\'s own override points) routed to counting wrappers',
    'bounds': {'worker loop': 'as C06: work storage requested once and given back once on every return without memory error, any hand-out order, any singular columns', 'routines': 'get_perm_c (options 0..2), sp_colorder (+sp_coletree/sp_symetree/TreePostorder/qrnzcnt/cholnzcnt), and the illegal-argument returns of both drivers and six computational routines',
               'inputs': 'm,n<=2 all patterns, 3x3 sampled (thorough: all); symbolic input permutation for sp_colorder; whole symbolic argument records'},
    'outside': ['thread and file handles (OS facts)', 'the drivers\' successful / singular / out-of-memory returns (allocator stubs would hide the real allocation sites there)', 'COLAMD'],
    'assumptions': ['balance zero per call implies no growth over any call sequence'],
    'trusted_base': ['cbmc 6.11', 'MiniSat'],
}

def REPRESENTATIVE(tier):
    return [leak(colorder_query('C10', 2, 0xf, 0), 'C17')]
