"""C17 -- no resource leaks: a call gives back everything except what it returns (DESIGN 3/C17)"""
from props.common import *
from props.C10 import perm_query, colorder_query, ORD_SRCS
from props.C15 import arg_query, ROUT
import random

def leak(q, pid):
    q.name = q.name.replace('C10.', pid + '.leak.').replace('C15.', pid + '.leak.')
    q.defs['LEAKCHK'] = None
    q.group = 'allocation balance: ' + q.group
    return q

from props.C10 import MALLOC
LD_SRCS = [('pdmemory.c', MALLOC + ['-Dpdgstrf_MemInit=real_pdgstrf_MemInit', '-Dsuperlu_dQuerySpace=real_superlu_dQuerySpace'])] + [(f, MALLOC) for f in ['pdgssvx.c', 'pdgstrf.c', 'pdgstrf_thread_init.c', 'pdgstrf_thread_finalize.c', 'pxgstrf_synch.c',
                                 'pxgstrf_relax_snode.c', 'sp_colorder.c', 'sp_coletree.c', 'qrnzcnt.c', 'cholnzcnt.c', 'get_perm_c.c',
                                 'pmemory.c', 'pdutil.c', 'pxgstrf_finalize.c', 'lsame.c']] + \
          [('util.c', MALLOC + ['-Dsuperlu_abort_and_exit=real_superlu_abort_and_exit'])]

def leakdrv_query(pid, scen, n, pat, nr=0, sym=0, P=1, w=1, relax=1, trans=0, pc=None, wit=0, timeout=900):
    pc = pc or tuple(range(n))
    q = Query('%s.drv.s%d.n%d.p%x.nr%d.sym%d.P%d.w%d%d.t%d.pc%s.e%d' % (pid, scen, n, pat, nr, sym, P, w, relax, trans, ''.join(map(str, pc)), wit), 'leakdrv_h.c', LD_SRCS,
              defs={'SCEN': scen, 'NN': n, 'PAT': hex(pat), 'LD_NR': nr, 'LD_SYM': sym, 'LD_P': P, 'LD_W': w, 'LD_RELAX': relax, 'LD_TRANS': trans,
                    'LD_PC': '0x' + ''.join('%x' % d for d in reversed(pc)), 'LD_WIT': wit}, engine='sat', unwind=4 * n + 8, timeout=timeout,
              group='real pdgssvx down to the start of the workers: %s' % {1: 'workspace query', 2: 'caller workspace of any size and alignment (too small / retries / just enough)', 3: 'allocator refuses factor arrays from any request on'}[scen])
    return q

def leakdrv_plan(pid, tier, seed):
    rnd = random.Random(seed + 17)
    qs = []
    k = 0
    for scen in (1, 2, 3):
        for n, pats in ((2, [0xf, 0x9, 0xb, 0xd]), (3, [0x1ff, 0x111, 0x1b3, 0x0d5 | 0x111])):
            for pat in pats:
                for nr in (0, 1):
                    k += 1
                    for wit in ((0, 1) if scen != 1 else (0,)):
                        qs.append(leakdrv_query(pid, scen, n, pat, nr=nr, sym=k % 2, P=1 + k % 2, w=1 + (k // 2) % 2, relax=1 + (k // 3) % 2, trans=k % 3,
                                                pc=perms(n)[k % len(perms(n))], wit=wit))
    return qs

def plan(tier, seed):
    rnd = random.Random(seed)
    qs = []
    # ordering / preprocessing temporaries (get_perm_c, sp_colorder): counting USER_MALLOC / USER_FREE wrappers
    for (m, n) in [(1, 1), (2, 2)]:
        for pat in range(1 << (m * n)):
            for o in (0, 1, 2):
                qs.append(leak(perm_query('C10', m, n, pat, o), 'C17'))
    for pat in (rnd.sample(range(512), 30) if tier != 'thorough' else range(512)):
        qs.append(leak(perm_query('C10', 3, 3, pat, 1 + pat % 2), 'C17'))
    for sym in (0, 1):
        for pat in range(16):
            qs.append(leak(colorder_query('C10', 2, pat, sym), 'C17'))
    # illegal-argument returns retain nothing (same queries as C15: live_blocks == 0 is one of their assertions)
    qs += [leak(arg_query('C15', r, p), 'C17') for r in ROUT for p in 'dz']
    # worker loop: per-thread work storage is given back exactly once on every non-memory-error return (incl. singular)
    from props.C06 import thr_query
    # (the plain worker-loop query runs in C06; the variant below makes the same assertions on every return with granted storage)
    # ... and when the per-thread work storage is refused (caller workspace too small for this worker) or granted, the worker's own
    # heap blocks (counting USER_MALLOC/USER_FREE) are all returned
    q = thr_query('C17', 6, 2)
    q.name += '.leak'
    q.defs['LEAKCHK'] = None
    q.params = dict(q.defs)
    q.srcs = [(s, MALLOC) if isinstance(s, str) else (s[0], MALLOC + s[1]) for s in q.srcs]
    q.group = 'worker loop: heap balance of the worker, work storage granted or refused'
    qs.append(q)
    # non-factoring returns of the real expert driver: workspace query, caller workspace too small, allocator refusal
    qs += leakdrv_plan('C17', tier, seed)
    return qs

META = {
    'level': 'model_checking',
    'engines': 'E1: cbmc 6.11 bit-precise; USER_MALLOC/USER_FREE (the library\'s own override points) routed to counting wrappers',
    'bounds': {'driver returns without factorization': 'real pdgssvx with everything real down to the start of the workers, counting USER_MALLOC/USER_FREE: lwork=-1 query; caller workspace 1..80n^2 bytes at any alignment; system allocator refusing every MemInit request from the k-th on (k symbolic); n=2,3, 8 patterns, NC/NR, symmetric mode on/off, 1-2 threads, w/relax 1..2', 'worker loop': 'as C06: work storage requested once and given back once on every return without memory error, any hand-out order, any singular columns; second query with counting USER_MALLOC/USER_FREE in pdgstrf_thread.c and a WorkInit that is refused or granted (symbolic): heap balance of the worker zero on the refused-storage return and on every return without memory error', 'routines': 'get_perm_c (options 0..2), sp_colorder (+sp_coletree/sp_symetree/TreePostorder/qrnzcnt/cholnzcnt), and the illegal-argument returns of both drivers and six computational routines',
               'inputs': 'm,n<=2 all patterns, 3x3 sampled (thorough: all); symbolic input permutation for sp_colorder; whole symbolic argument records'},
    'outside': ['thread and file handles (OS facts)', 'the drivers\' successful / singular returns and allocation failures after the workers have started (the numeric factorization is not bit-precisely encodable; E2 queries use typed allocator stubs)', 'refusal of requests whose failure the library answers with abort (intMalloc) or does not check (expander table, ParallelInit)', 'COLAMD'],
    'assumptions': ['balance zero per call implies no growth over any call sequence'],
    'trusted_base': ['cbmc 6.11', 'MiniSat'],
}

def REPRESENTATIVE(tier):
    return [leak(colorder_query('C10', 2, 0xf, 0), 'C17')]
