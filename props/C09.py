"""C09 -- returned L, U, permutations are well-formed (DESIGN 3/C09)"""
from props.common import *
from props.C02 import pivot_queries

FIN_SRCS = ['pdgstrf_thread_finalize.c', 'pxgstrf_synch.c', 'pmemory.c', ('util.c', ['-Dsuperlu_abort_and_exit=real_superlu_abort_and_exit']), 'pdutil.c']

def fin_query(pid, n, ns, nwork, timeout=900):
    q = Query('%s.finalize.n%d.s%d.w%d' % (pid, n, ns, nwork), 'fin_h.c', FIN_SRCS, defs={'N': n, 'NS': ns, 'NWORK': nwork},
              engine='sat', unwind=n + 2, unwindset={'main.5': 2 * ns + 1}, timeout=timeout,
              group='finalize after interleaved NewNsuper/Glu_alloc(LSUB)')
    q.unwind_big = max(2 * ns + 2, 4 * n + 2)
    return q

def plan(tier, seed):
    qs = [fin_query('C09', 3, 2, 1), fin_query('C09', 3, 2, 2), fin_query('C09', 4, 2, 2), fin_query('C09', 3, 3, 2, 1500)]   # 3 supernodes: storage order can be any permutation of the numbering
    if tier == 'thorough':
        qs += [fin_query('C09', 4, 3, 2, 3000), fin_query('C09', 4, 3, 3, 3000)]
    qs += [q for q in pivot_queries('C09', 'quick') if '.c2.' not in q.name]
    qs += full_plan('C09', tier, seed + 31, quick_n3=60)
    return qs

META = {
    'level': 'model_checking',
    'engines': 'E1 (cbmc+MiniSat) for the finalize step under interleaved allocation; E2 (Real) for the whole-driver family and the pivotL unit',
    'bounds': {'finalize': 'through the REAL p?gstrf_thread_finalize, first-time or refact=YES (caller\'s L/U pre-existing with arbitrary counts), two workers with arbitrary info values; n<=4 columns, 2 supernodes of any sizes and 3 single-column supernodes (thorough: 3 of any sizes at n=4), any row permutation, every interleaving of the 2*NS allocation steps with at most 2-3 in flight',
               'whole driver': 'as C01 (n<=3): every bullet of the property asserted on the returned L, U, perm_r, perm_c (harness/wf_lu.h)',
               'pivotL unit': 'as C02: perm_r / inv_perm_r / row-list updates of the real pivotL'},
    'outside': ['n > 4', 'supernode numbering by more than 3 concurrent workers'],
    'assumptions': ['the two allocation calls of a supernode are atomic steps (they are critical sections in the code)',
                    'whole-driver family: as C01'],
    'trusted_base': ['cbmc 6.11', 'MiniSat', 'tools/fp2alg.py', 'z3 5.1.0'],
}

def REPRESENTATIVE(tier):
    return [fin_query('C09', 3, 2, 2)]
