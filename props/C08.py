"""C08 -- re-factorization and factor reuse stay correct over any call history (DESIGN 3/C08)"""
from props.common import *
from props.C02 import pivot_queries
import random

def plan(tier, seed):
    rnd = random.Random(seed)
    qs = []
    k = 0
    # call sequence: first factorization -> re-factorization (same pattern, new values, refact = YES, usepr yes/no) -> solve with FACTORED
    for n in (1, 2):
        for pat in all_patterns(n):
            for pv in perms(n):
                for usepr in (0, 1):
                    k += 1
                    qs.append(fullx_query('C08', n, pat, pv, perms(n)[k % len(perms(n))], CONFIGS[k % 8], trans=k % 3, nr=(k % 2 == 0), scen=1, usepr=usepr, nprocs=1 + k % 2))
    sparse3 = [p for p in all_patterns(3) if bin(p).count('1') <= 5]
    for pat in (sparse3 if tier == 'thorough' else rnd.sample(sparse3, 10)):
        k += 1
        qs.append(fullx_query('C08', 3, pat, perms(3)[k % 6], (0, 1, 2), CONFIGS[k % 8], trans=k % 3, scen=1, usepr=k % 2, timeout=600))
    # re-factorization whose new values lead to a DIFFERENT pivot sequence (second preference order): the structure and the
    # supernode partition of the reused L/U change; usepr = NO
    pats3 = [p for p in all_patterns(3) if 5 <= bin(p).count('1') <= 7]
    for pat in (pats3 if tier == 'thorough' else rnd.sample(pats3, 24)):
        k += 1
        pv = perms(3)[k % 6]; pv2 = perms(3)[(k + 1 + k // 6 % 5) % 6]
        if pv2 == pv: pv2 = tuple(reversed(pv))
        q = fullx_query('C08', 3, pat, pv, (0, 1, 2), CONFIGS[k % 8], trans=k % 3, scen=1, usepr=0, timeout=600, tagx='.pv2_' + ''.join(map(str, pv2)))
        q.defs['VH_PIVPREF2'] = cinit(pv2)
        q.group = 'expert driver factor / re-factor with different pivots / reuse n=3'
        qs.append(q)
    for pv, pv2 in (((0, 1), (1, 0)), ((1, 0), (0, 1))):
        k += 1
        q = fullx_query('C08', 2, 0xf, pv, (0, 1), CONFIGS[k % 8], trans=k % 3, scen=1, usepr=0, tagx='.pv2_' + ''.join(map(str, pv2)))
        q.defs['VH_PIVPREF2'] = cinit(pv2); q.group = 'expert driver factor / re-factor with different pivots / reuse n=2'
        qs.append(q)
    # the real pivotL with a prescribed row order: old pivot kept iff it passes the threshold, otherwise a valid new one (usepr dropped)
    qs += [q for q in pivot_queries('C08', 'quick') if '.u1' in q.name and '.c2.' not in q.name]
    return qs

META = {
    'level': 'model_checking',
    'engines': 'E2 (Real): the real expert driver called three times in one query (factor, re-factor with new symbolic values, solve with supplied factors); real pivotL unit for the row-order reuse policy',
    'bounds': {'call sequence': 'first factorization -> re-factorization (refact = YES, usepr yes/no, new values) -> FACTORED solve with new B; n<=2 all patterns x pivot orders x trans x storage, n=3 patterns with <= 5 entries (10 sampled in quick)',
               'different pivots': 'n=2 dense both ways, n=3 24 sampled patterns with 5..7 entries (thorough: all): the re-factorization follows a second pivot preference order', 'pivot reuse policy': 'as C02 pivotL unit with usepr = YES (old pivot present / absent / failing the threshold)',
               'induction': 'each call leaves the persistent state (option arrays, L/U storage, static sizes) as the next call expects it: asserted by running the next call on it'},
    'outside': ['histories longer than three calls (covered only through the state the second call leaves for the third)', 'user-supplied workspace in the re-factorization (allocator C14)', 'n > 3', 'rounding'],
    'assumptions': ['pivot choice forced in the driver queries (first family: the re-factorization repeats the old pivots; second family: it follows a different order); which branch the real pivotL takes is decided on the pivotL unit',
                    'allocator entry points typed stubs incl. the refact = YES rebinding of the arrays inside L/U'],
    'trusted_base': ['cbmc 6.11', 'tools/fp2alg.py', 'z3'],
}

def REPRESENTATIVE(tier):
    return [fullx_query('C08', 2, 0xf, (0, 1), (0, 1), CONFIGS[0], scen=1)]
