"""C12 -- condition estimate and pivot growth are sound (decided parts; DESIGN 3/C12)"""
from props.common import *
from props.C19 import SP_SRCS, compositions, q_misc
from props.C07 import plan as c07plan
import random

PG_SRCS = SP_SRCS + ['dpivotgrowth.c']

def q_growth(pid, n, sups, lpat, upat, pata, pc, ncols):
    return Query('%s.growth.n%d.s%s.l%x.u%x.a%x.pc%s.k%d' % (pid, n, ''.join(map(str, sups)), lpat, upat, pata, ''.join(map(str, pc)), ncols), 'spblas_h.c', PG_SRCS,
                 defs={'MODE': 6, 'N': n, 'PAT': hex(pata), 'SUPS': cinit(list(sups) + [0] * n), 'LPAT': hex(lpat) + 'UL', 'UPAT': hex(upat) + 'UL',
                       'VH_PERMC': cinit(pc), 'NCOLS': ncols}, engine='smt', mode='real', unwind=40, timeout=300, group='reciprocal pivot growth on constructed factors')

def q_con(pid):
    q = Query('%s.gscon.wiring' % pid, 'con_h.c', ['dgscon.c', 'lsame.c', 'pmemory.c', 'pdmemory.c', ('util.c', ['-Dsuperlu_abort_and_exit=real_superlu_abort_and_exit'])],
              engine='sat', unwind=7, timeout=600, group='dgscon reverse-communication wiring')
    q.unwind_big = 20
    return q

def plan(tier, seed):
    rnd = random.Random(seed)
    qs = [q_con('C12')]
    for n in (1, 2, 3):
        for sups in compositions(n):
            for t in range(2 if tier != 'thorough' else 8):
                full = (1 << (n * n)) - 1
                lp, up, pa = (full, full, full) if t == 0 else (rnd.getrandbits(n * n), rnd.getrandbits(n * n), rnd.getrandbits(n * n) | 1)
                pc = perms(n)[(t + len(sups)) % len(perms(n))]
                for ncols in sorted(set([n, max(1, n - 1)])):
                    qs.append(q_growth('C12', n, sups, lp, up, pa, pc, ncols))
    qs += [q for q in [q_misc('C12', 3, 2, 2, p) for p in range(16)] + [q_misc('C12', 3, 3, 3, 0x1ff), q_misc('C12', 3, 2, 3, 0x2d)]]
    # the triangular solves the estimator is built on, on factors with several wide supernodes (same queries as C19)
    from props.C19 import q_trsv
    for (n, sups) in [(4, (2, 2)), (5, (2, 2, 1)), (5, (2, 3))]:
        for var in (range(4) if n == 4 else (0, 2)):
            qs.append(q_trsv('C12', n, sups, (1 << (n * n)) - 1, (1 << (n * n)) - 1, var, vendor=(var % 2 == 0)))
    qs += c07plan(tier, seed, 'C12')[:6]   # info = n+1 exactly when rcond < eps; norm character per transpose sense
    return qs

META = {
    'level': 'model_checking',
    'engines': 'E2 (Real) for pivot growth and norms; E1 for the dgscon reverse-communication wiring and the driver\'s info = n+1 rule',
    'bounds': {'pivot growth': 'n<=3, every supernode partition, dense and sampled factor/matrix patterns, every column permutation class, full and truncated column counts',
               'norms': 'max / one / infinity norm, m,n<=3', 'dgscon': 'n=3, up to 4 estimator requests of either kind, both norm characters',
               'driver': 'as C07'},
    'outside': ['the Hager/Higham bounds  1/(||A|| ||inv(A)||) <= rcond <= 1/(||A|| ||inv(A) e/n||)  themselves: the real dlacon_ with non-linear reals did not finish at n=2 (probe: >300 s), so the estimator kernel is NOT decided here',
                'rounding ("up to rounding")'],
    'assumptions': ['dgscon query: dlacon_ and sp_dtrsv are recording stubs (sp_dtrsv itself is verified in C19)'],
    'trusted_base': ['cbmc 6.11', 'MiniSat', 'tools/fp2alg.py', 'z3'],
}

def REPRESENTATIVE(tier):
    return [q_con('C12'), q_growth('C12', 3, (2, 1), 0x1ff, 0x1ff, 0x1ff, (0, 1, 2), 3)]
