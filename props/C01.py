"""C01 -- simple driver solves A*X = B (algebraic half; DESIGN 3/C01)"""
from props.common import *

META = {
    'level': 'model_checking',
    'engines': 'E2: cbmc symex of the real pdgssv -> SMT-LIB (--fpa) -> fp2alg Real -> z3 5.1',
    'bounds': {'larger shapes': 'n=5 (thorough 4..6): dense, banded, arrowhead and lower+superdiagonal patterns, 3 pivot orders, supernodes up to 6 columns, 1-D and 2-D blocking, with all entries pinned to fixed generic values except three symbolic ones (first column L part, last two pivots)', 'n': '1..3', 'nrhs': '1..2', 'ldb': 'n..n+1', 'panel w': '1..3', 'relax': '1..3', 'maxsuper': '1..3',
               'nprocs': '1..3 (workers run one after the other)', 'patterns': 'all structurally non-singular 0/1 patterns',
               'pivot orders': 'all n! preference orders (forced-pivot stub)', 'values': 'all reals (exact arithmetic)'},
    'outside': ['IEEE rounding (gamma(3n) bound)', 'n > 3', 'complex arithmetic', 'true thread interleavings (C03/C04)',
                'the pivot *choice* (verified in C02 on the real pivotL)'],
    'assumptions': ['floating point reinterpreted as the ordered field of reals (fp2alg real mode)',
                    'allocator entry points pdgstrf_MemInit/WorkInit/WorkFree replaced by typed stubs with the library\'s own sizes (allocator itself: C14)',
                    'pdgstrf_pivotL replaced by the forced-pivot stub harness/pivot_stub.h (choice iterated exhaustively; real pivotL: C02)',
                    'pthread_create runs the worker synchronously; mutexes are no-ops',
                    'solve is checked against fresh symbolic factors at the factor/solve cut (EQ_LU asserted at the cut)'],
    'trusted_base': ['cbmc 6.11 symbolic execution + SMT export', 'tools/fp2alg.py', 'z3 5.1.0', 'harness/refblas.h (dtrsv_ for transposed solves / vendor BLAS stand-in)'],
    'exhaustive_thorough': True,
}

def plan(tier, seed):
    return full_plan('C01', tier, seed) + big_plan('C01', tier, seed)

def REPRESENTATIVE(tier):
    return [full_query('C01', 3, 0x1ff, (0, 1, 2), (0, 1, 2), CONFIGS[0])]
