"""C05 -- memory safety; predicted bound on L never exceeded; arrays suffice (DESIGN 3/C05)"""
from props.common import *
import random

def sat_full_query(pid, n, pat, pref, permc, cfg, dyn, timeout=900, fills=None):
    """the whole-driver harness decided bit-precisely with ALL of CBMC's memory checks on: every array the
    factorization touches has exactly the size the library's formulas give it"""
    q = full_query(pid, n, pat, pref, permc, cfg, dyn=dyn, extra=fills)
    q.name = q.name.replace('.full.', '.fullsat.') + ('.f' + '_'.join(str(v) for v in fills.values()) if fills else '')
    q.engine = 'sat'
    q.solver = 'minisat'
    q.timeout = timeout
    q.unwind = 8 * n + 40
    q.unwind_big = 200
    q.extra_cbmc = ['--property-filter-not-used']
    q.extra_cbmc = []
    q.defs['VH_SAT_MEMORY_ONLY'] = None
    if fills:
        q.defs['VH_ABORT_OK'] = None   # too-small estimates: the diagnostic abort is the documented outcome
        q.witness = False              # ... and ends every path, so the end-of-harness witness does not apply
    q.group = 'whole driver, bit-precise memory checks n=%d' % n
    # dmyblas2.c steps a column pointer one leading dimension past the last column (`M0 + ldm`): a one-past-the-block
    # pointer that is never dereferenced; --pointer-overflow-check flags it, no run can observe it (reported separately in DESIGN)
    q.no_ptr_overflow = True
    return q

def plan(tier, seed):
    rnd = random.Random(seed)
    qs = []
    # (1) slot bound H1 + WF_LU extents under all values: the whole-driver family in both storage schemes
    k = 0
    for n in (2, 3):
        pats = all_patterns(n)
        combos = [(p, pv) for p in pats for pv in perms(n)]
        if n == 3 and tier != 'thorough':
            combos = rnd.sample(combos, 70)
        for (pat, pv) in combos:
            k += 1
            cfg = CONFIGS[(k * 5 + pat) % len(CONFIGS)]
            qs.append(full_query('C05', n, pat, pv, perms(n)[(k + pat) % len(perms(n))], cfg, dyn=(k % 2 == 0), nprocs=1 + k % 2, tagx='.slot'))
    # (1b) larger shapes (n=5,6; pinned values): deeper supernodes, both storage schemes
    qs += [q for i, q in enumerate(big_plan('C05', tier, seed))]
    # (2) bit-precise memory safety of the same code (pointer / bounds checks of every access)
    sel = [(2, 0xf, (0, 1)), (2, 0xf, (1, 0)), (2, 0x7, (0, 1)), (2, 0xb, (1, 0)), (3, 0x1ff, (0, 1, 2)), (3, 0x1ff, (2, 0, 1)), (3, 0x0bd, (1, 2, 0)), (3, 0x1b7, (0, 2, 1))]
    if tier == 'thorough':
        sel += [(3, p, pv) for p in rnd.sample(all_patterns(3), 40) for pv in [perms(3)[p % 6]]]
    for i, (n, pat, pv) in enumerate(sel):
        qs.append(sat_full_query('C05', n, pat, pv, tuple(range(n)), CONFIGS[i % 6], dyn=(i % 2 == 1)))
    # (3) the tunable estimates for U / L subscripts too small: diagnostic abort instead of an out-of-bounds write
    for i, (n, pat, pv) in enumerate(sel[:4]):
        qs.append(sat_full_query('C05', n, pat, pv, tuple(range(n)), CONFIGS[0], dyn=False, fills={'VH_FILL7': 1 + i % 2, 'VH_FILL8': 2 + i}))
        # L-subscript estimate too small while the U estimate is generous (each pool has its own limit)
        qs.append(sat_full_query('C05', n, pat, pv, tuple(range(n)), CONFIGS[0], dyn=False, fills={'VH_FILL7': 4 * n * n, 'VH_FILL8': 1 + i % 2}))
    return qs

META = {
    'level': 'model_checking',
    'engines': 'E2 (Real) whole-driver family with the slot-bound hook H1 and extent disjointness; E1 (cbmc bit-precise, all pointer/bounds checks) on the same harness',
    'bounds': {'slot bound / extents': 'n<=3, all structurally non-singular patterns (n=3: 70 sampled in quick) x all pivot orders, static and dynamic supernode storage, w/relax/maxsuper 1..3',
               'bit-precise memory safety': 'selected n<=3 shapes (thorough: 40 more), every array sized exactly as the library sizes it (typed allocator stubs), incl. too-small U / L-subscript estimates (abort path)'},
    'outside': ['n > 3', 'multi-worker allocation order (C09 finalize query)', 'the byte-level allocator (C14)', 'rounding'],
    'assumptions': ['allocator entry points are typed stubs that allocate exactly the element counts of the real formulas',
                    'pivot choice forced, all orders iterated: "whatever pivots are chosen"'],
    'trusted_base': ['cbmc 6.11', 'MiniSat', 'tools/fp2alg.py', 'z3'],
}

def REPRESENTATIVE(tier):
    return [full_query('C05', 3, 0x1ff, (0, 1, 2), (0, 1, 2), CONFIGS[0], dyn=True)]
