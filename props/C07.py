"""C07 -- expert driver solves the original system for every trans/storage/equil option (wiring; DESIGN 3/C07)"""
from props.common import *
from props.C15 import MALLOC
from props.common import fullx_query, all_patterns, perms, CONFIGS

REN = ['-DStatAlloc=real_StatAlloc', '-DStatInit=real_StatInit', '-DPrintStat=real_PrintStat', '-DStatFree=real_StatFree',
       '-DDestroy_CompCol_Permuted=real_Destroy_CompCol_Permuted', '-Dsuperlu_abort_and_exit=real_superlu_abort_and_exit']
XDRV_SRCS = [('pdgssvx.c', MALLOC), ('pdutil.c', MALLOC), ('util.c', MALLOC + REN), 'lsame.c', 'pmemory.c']

def xdrv_query(pid, fact=0, nr=0, memfail=False, timeout=900, nrhs=1):
    defs = {'NN': 2, 'XD_FACT': fact, 'XD_NR': nr}
    if nrhs > 1:
        defs['XD_NRHS'] = nrhs
    if memfail:
        defs['XD_MEMFAIL'] = None
    q = Query('%s.xdrv.d.f%d.%s%s' % (pid, fact, 'nr' if nr else 'nc', ('.memfail' if memfail else '') + ('.r%d' % nrhs if nrhs > 1 else '')), 'xdrv_h.c', XDRV_SRCS, defs=defs, engine='sat', unwind=6, timeout=timeout, solver='minisat',
              group='expert driver wiring (callees = recording stubs)')
    q.unwind_big = 24
    return q

def plan(tier, seed, pid='C07'):
    import random
    rnd = random.Random(seed)
    qs = [xdrv_query(pid, f, nr) for f in (0, 1, 2) for nr in (0, 1)]
    qs += [xdrv_query(pid, f, nr, memfail=True) for f in (0, 1) for nr in (0,)]
    # two right-hand sides, B and X with different leading dimensions and sentinel padding rows
    qs += [xdrv_query(pid, f, nr, nrhs=2) for f in (0, 1, 2) for nr in (0, 1)]
    if pid != 'C07':
        return qs
    # numeric half on the REAL driver and REAL factorization / solve: op(A) X = B for every trans x storage
    k = 0
    for n in (1, 2):
        for pat in all_patterns(n):
            for pv in perms(n):
                for trans in (0, 1, 2):
                    for nr in (False, True):
                        k += 1
                        qs.append(fullx_query(pid, n, pat, pv, perms(n)[k % len(perms(n))], CONFIGS[k % 8], trans=trans, nr=nr, nprocs=1 + k % 2))
    combos = [(p, pv) for p in all_patterns(3) for pv in perms(3)]
    for (pat, pv) in (combos if tier == 'thorough' else rnd.sample(combos, 40)):
        k += 1
        qs.append(fullx_query(pid, 3, pat, pv, perms(3)[k % 6], CONFIGS[k % len(CONFIGS)], trans=k % 3, nr=(k % 2 == 0), nprocs=1 + k % 3))
    return qs

META = {
    'level': 'model_checking',
    'engines': 'E1 (wiring: cbmc bit-precise, whole option record and every callee outcome symbolic) + E2 (Real: whole expert driver on symbolic values)',
    'bounds': {'numeric half': 'real pdgssvx + real factorization + real solve, n<=3, all structurally non-singular patterns (n=3: 40 sampled in quick) x pivot orders x trans {N,T,C} x storage {NC,NR}: op(A) X = B, A and B unchanged (fact = DOFACT)', 'options': 'trans {N,T,C} x storage {NC,NR} x fact {DOFACT,EQUILIBRATE,FACTORED} x equed {none,row,col,both} x refact/usepr x nprocs 1..2 x lwork {0,-1}',
               'callee outcomes': 'factorization: ok / singular at 1 / singular at n / allocation failure; equilibration: each flag or zero row; rcond above / below eps',
               'sizes': 'n = 2, one right-hand side, scale factors 2 and 4 (powers of two: exact)'},
    'outside': ['the numerics of the callees (C01/C02/C11/C12/C13/C19 on the real routines)', 'single precision and complex drivers (same text with renamed calls)', 'n > 2, nrhs > 1'],
    'assumptions': ['callees are recording stubs that establish their contracts (EQ_LU etc. are discharged on the real callees elsewhere)'],
    'trusted_base': ['cbmc 6.11', 'MiniSat'],
}

def REPRESENTATIVE(tier):
    return [xdrv_query('C07')]
