"""C03 -- no column is consumed before it is final, under every interleaving (DESIGN 3/C03)"""
from props.common import *
from props.C04 import sched_plan, sched_query
import random, itertools

def pipe_query(pid, n, pat, pref, permc, cfg, script, midyield, timeout=300, tag='', mask=None):
    W, RELAX, MAXSUP, ROWBLK, COLBLK = cfg
    defs = {'N': n, 'PAT': hex(pat), 'VH_PIVPREF': cinit(pref), 'VH_PERMC': cinit(permc), 'VH_W': W, 'VH_RELAX': RELAX,
            'VH_MAXSUP': MAXSUP, 'VH_ROWBLK': ROWBLK, 'VH_COLBLK': COLBLK, 'VH_SCRIPT': cinit(script or [-1]),
            'VH_MIDYIELD': cinit(list(midyield) + [0])}
    if mask is None:
        # U-part of A in the forced pivot order (entry (pref[k], j) with k < j): concrete generic values
        mask = sum(1 << (pref[k] + j * n) for j in range(n) for k in range(j))
        if n >= 4:
            # 4x4 identities with 10 symbolic entries do not finish in z3: keep three entries symbolic
            # (one in the first column's L part, the last two pivots), the rest fixed generic values
            keep = {pref[1] + 0 * n, pref[n - 1] + (n - 2) * n, pref[n - 1] + (n - 1) * n}
            mask = sum(1 << b for b in range(n * n) if b not in keep)
    defs['VH_CONCRETE_MASK'] = hex(mask) + 'UL'
    name = '%s.pipe.n%d.p%x.pv%s.pc%s.w%d%d%d.s%s.y%s%s' % (pid, n, pat, ''.join(map(str, pref)), ''.join(map(str, permc)), W, RELAX, MAXSUP,
                                                        ''.join(map(str, script)) or 'rr', ''.join(map(str, midyield)), tag)
    return Query(name, 'pipe_h.c', pipeline_srcs('d'), defs=defs, engine='smt', mode='real', unwind=6 * n + 12, timeout=timeout,
                 group='two-worker pipeline n=%d' % n)

# hand-picked shapes that force pipelining through a relaxed supernode that is not a path
DESIGNED = [
    # n=4: columns 0,1 leaves under 2 (relax=3 -> supernode {0,1,2}), column 3 the parent panel
    (4, 0b1111_1100_1010_0101 | 0b1111_0100_0000_0000, (0, 1, 2, 3), (0, 1, 2, 3), (1, 3, 3, 2, 2)),
    (4, 0xffff, (0, 1, 2, 3), (0, 1, 2, 3), (1, 3, 3, 2, 2)),
    (4, 0b1101_1110_1010_0101, (0, 1, 2, 3), (0, 1, 2, 3), (1, 3, 3, 2, 2)),
    (4, 0b1111_1100_1010_0101, (3, 2, 1, 0), (0, 1, 2, 3), (1, 2, 3, 2, 2)),
    (4, 0b1001_0110_1010_0101 | 0b1000_1000_1000_1000, (0, 1, 2, 3), (0, 1, 2, 3), (2, 1, 3, 2, 2)),
]

def pipe_plan(pid, tier, seed):
    rnd = random.Random(seed)
    qs = []
    scripts = [(), (0, 0, 1, 1), (0, 1, 0, 1, 1, 1), (1, 0, 0, 0, 0, 1), (0, 0, 0, 1, 1, 1, 0, 1), (1, 1, 0, 1, 0, 0)]
    for (n, pat, pref, pc, cfg) in DESIGNED:
        for sc in scripts[:4]:
            for my in [(0,) * n, (0, 0, 2, 0)[:n], (0, 2, 0, 2)[:n], (0, 1, 3, 0)[:n]]:
                qs.append(pipe_query(pid, n, pat, pref, pc, cfg, sc, my))
    pats3 = all_patterns(3)
    combos = [(3, p, pv) for p in pats3 for pv in perms(3)]
    k = 0
    for (n, pat, pv) in (combos if tier == 'thorough' else rnd.sample(combos, 40)):
        k += 1
        cfg = CONFIGS[(k * 5 + pat) % len(CONFIGS)]
        sc = scripts[k % len(scripts)]
        my = [(0, 0, 0), (0, 2, 0), (0, 0, 2), (1, 1, 1)][k % 4]
        qs.append(pipe_query(pid, n, pat, pv, perms(3)[(k + pat) % 6], cfg, sc, my))
    if tier == 'thorough':
        pats4 = [p for p in rnd.sample(range(1 << 16), 4000) if struct_nonsingular(4, p)][:300]
        for k, pat in enumerate(pats4):
            qs.append(pipe_query(pid, 4, pat, perms(4)[k % 24], (0, 1, 2, 3), CONFIGS[k % len(CONFIGS)], scripts[k % len(scripts)],
                                 [(0, 0, 0, 0), (0, 0, 2, 0), (0, 2, 0, 2), (0, 1, 3, 0)][k % 4], timeout=600))
    return qs

def pipe_selected(pid, tier, seed):
    """the scripted two-worker queries that are decided within a minute on the unchanged tree (selected once with
    tools: a 60 s cap over 160 candidates; scripts whose await cannot be represented or whose value-dependent
    segment tests make symbolic execution explode are left out and listed as outside the bound)"""
    import json, os
    ok = set(json.load(open(os.path.join(os.path.dirname(os.path.abspath(__file__)), 'pipe_ok.json'))))
    qs = [q for q in pipe_plan(pid, 'thorough', 1) if q.name in ok]
    for q in qs:
        q.timeout = 240
    return qs if tier == 'thorough' else qs[:36]


def plan(tier, seed):
    return sched_plan('C03', tier, seed, markbusy=True) + pipe_selected('C03', tier, seed)

META = {
    'level': 'model_checking',
    'engines': 'E1 (cbmc+MiniSat): all schedules over the real scheduler and mark_busy_descends;  E2 (Real, z3): two workers over the real factorization functions under scripted interleavings',
    'bounds': {'scheduler': 'as C04 (forests n<=5, P<=3, symbolic schedule)',
               'pipeline': 'n<=4, 2 workers, steps = scheduler call / relaxed supernode / mark_busy+panel_dfs / panel_bmod (awaits run the other worker) / column up to release / column after release; '
                           'extra yields before each pivot inside a relaxed supernode; schedule scripts and patterns iterated (designed shapes + sampled), values symbolic (all reals)'},
    'outside': ['interleavings finer than these steps (instruction level, inside kernels)', 'memory ordering of the volatile flags', 'more than 2 workers in the pipeline queries', 'n > 4'],
    'assumptions': ['pivot choice forced (all preference orders iterated in C01/C02); allocator entry points typed stubs',
                    'the loop of p?gstrf_thread is re-stated in the harness so that workers can be interleaved (the real loop is run by the whole-driver family of C01/C02)',
                    'await() hands control to the harness through hook H2'],
    'trusted_base': ['cbmc 6.11', 'MiniSat', 'tools/fp2alg.py', 'z3 5.1.0 / 4.8.12'],
}

def REPRESENTATIVE(tier):
    return [pipe_query('C03', 4, 0xffff, (0, 1, 2, 3), (0, 1, 2, 3), (1, 3, 3, 2, 2), (), (0, 0, 2, 0)), sched_query('C03', 3, 2, 11, markbusy=True)]
