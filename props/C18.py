"""C18 -- calls are independent of what was factored before: no hidden state carry-over (DESIGN 3/C18)"""
from props.common import *
import random

# the library's state with static lifetime that survives a call (file-scope statics of p?memory.c, the function-local
# static GlobalLU_t of p?gstrf_thread_init): started from ARBITRARY values by goto-instrument --nondet-static-matching
STATICS = r'.*[:/ ](no_expand|ndim|whichspace|tail_users)|.*pdgstrf_thread_init::1::Glu|(no_expand|ndim|whichspace|tail_users)'   # goto-instrument matches the whole name

def stat_query(q, pid):
    q.name = q.name.replace('.full.', '.anystate.').replace('.fullx.', '.anystatex.')
    q.instrument = ['--nondet-static-matching', STATICS]
    q.group = 'first-time call from arbitrary static state: ' + q.group
    return q

LACON_STATICS = ['iter', 'jump', 'jlast', 'i', 'j', 'altsgn', 'estold']

def lacon_query(pid, n, prec='d', script=None, free_from=None, timeout=300):
    """self-composition of the norm estimator: copy A starts from arbitrary values of its function-static loop state"""
    f = {'d': 'dlacon.c', 's': 'slacon.c'}[prec]
    blas = ['/repo/CBLAS/%s' % b for b in ({'d': ['dasum.c', 'idamax.c', 'dcopy.c'], 's': ['sasum.c', 'isamax.c', 'scopy.c']}[prec])]
    fn = prec + 'lacon_'
    # copy A: the function statics become harness-owned globals (same lifetime): -Dstatic=extern + renames
    a_flags = ['-D%s=dlacon_A' % fn, '-Dstatic=extern'] + ['-D%s=vhA_%s' % (v, v) for v in LACON_STATICS]
    defs = {'N': n}
    if prec == 's':
        defs['VH_SINGLE'] = None
    tag = ''
    if script:
        defs['SCRIPT'] = script
        tag = '.s%d' % script
        if free_from is not None:
            defs['FREE_FROM'] = free_from
            tag += '.f%d' % free_from
    q = Query('%s.lacon.%s.n%d%s' % (pid, prec, n, tag), 'lacon_h.c', [(f, a_flags), (f, ['-D%s=dlacon_B' % fn])] + blas, defs=defs, engine=('sat' if script and free_from is None else 'smt'), mode='real',
              unwind=16, timeout=timeout, group='norm estimator: a new estimate does not depend on the leftover static loop state (self-composition)')
    q.nosplit = True     # a timeout is reported as such (exit 2) instead of retrying ~100 assertion instances one by one
    return q

def plan(tier, seed):
    rnd = random.Random(seed)
    qs = []
    k = 0
    for n in (1, 2):
        for pat in all_patterns(n):
            for pv in perms(n):
                k += 1
                qs.append(stat_query(full_query('C18', n, pat, pv, tuple(range(n)), CONFIGS[k % 8], nr=(k % 2 == 0), dyn=(k % 3 == 0), nprocs=1 + k % 2), 'C18'))
    combos = [(p, pv) for p in all_patterns(3) for pv in perms(3)]
    for (pat, pv) in (combos if tier == 'thorough' else rnd.sample(combos, 50)):
        k += 1
        qs.append(stat_query(full_query('C18', 3, pat, pv, perms(3)[k % 6], CONFIGS[k % len(CONFIGS)], nr=(k % 2 == 0), dyn=(k % 3 == 0), nprocs=1 + k % 3), 'C18'))
    # the user-workspace stack: a first-time call re-initialises every field whatever the previous call left (real p?gstrf_SetupSpace)
    from props.C14 import alloc_query
    q = alloc_query('C18', 7)
    qs.append(q)
    for (pat, pv) in [(0xf, (0, 1)), (0x7, (1, 0)), (0xb, (0, 1))]:
        k += 1
        qs.append(stat_query(fullx_query('C18', 2, pat, pv, (0, 1), CONFIGS[k % 8], trans=k % 3, scen=1, usepr=k % 2), 'C18'))
    # dlacon_ (used by ?gscon and ?gsrfs) keeps loop state in function statics between the reverse-communication calls of
    # one estimate: a new estimate must not depend on what they held (self-composition, statics of one copy arbitrary)
    for sc in (1, 2, 3):
        qs.append(lacon_query('C18', 2, script=sc))                   # every reply of the caller pinned (three scripts through the main loop)
        for ff in ((2, 4, 6) if sc == 2 else (2,)):
            qs.append(lacon_query('C18', 2, script=sc, free_from=ff))   # scripted prefix, every later reply arbitrary
    for sc in (1, 2, 3):
        qs.append(lacon_query('C18', 2, prec='s', script=sc))        # slacon_: the three fully scripted runs, bit-precise
    qs.append(lacon_query('C18', 1))                                  # n = 1: every reply arbitrary
    return qs

META = {
    'level': 'model_checking',
    'engines': 'E2 (Real) + E1 for the scripted norm-estimator queries: the whole-driver queries of C01 / C08 started from ARBITRARY values of the library\'s persistent static state (goto-instrument --nondet-static-matching)',
    'bounds': {'state made arbitrary': 'no_expand, ndim, whichspace, tail_users (p?memory.c) and every field of the static GlobalLU_t in p?gstrf_thread_init (all sizes, counters and array pointers left by any earlier call)',
               'norm estimator': 'real dlacon_ compiled twice; the seven function statics (iter, jump, jlast, i, j, altsgn, estold) of one copy are harness-owned (-Dstatic=extern + renames: same lifetime and uses) and start ARBITRARY, the other copy starts from zeros; same replies to both; every request, vector, estimate compared. n=2: three reply scripts (one extra round then repeated sign vector / growth in every round up to ITMAX / cycling test) fully pinned = bit-precise SAT, and with all replies after the 2nd (4th, 6th) arbitrary = Real; n=1: all replies arbitrary',
               'probe calls': 'simple driver on every pattern/pivot order n<=2 and 50 sampled (thorough: all) at n=3; the factor / re-factor / reuse sequence at n=2',
               'claim': 'the same functional assertions as C01/C02/C09 hold whatever the earlier history left behind, i.e. the result depends only on the call\'s own arguments'},
    'outside': ['the expander table pointer dexpanders (a dangling non-null value is not producible by any call: it is freed and zeroed in thread_finalize)',
                'dlacon_ with every reply of the caller arbitrary at n=2 (decided only along three scripted prefixes; the fully free query proves unsat in ~120 s but its vacuity witness is not decided by any solver, so it is not run)', 'slacon_ beyond the three fully scripted runs; statics of clacon_/zlacon_ (same structure as dlacon_) and of dlamch.c (the harnesses replace ?lamch_ by exact constants)', 'the byte-level allocator state `stack` beyond its re-initialisation by p?gstrf_SetupSpace (C14 treats every state of it)',
                'bit-identical results (decided up to exact arithmetic, not rounding)'],
    'assumptions': ['as C01 (typed allocator stubs: the real MemInit\'s own re-initialisation of no_expand/ndim is therefore not exercised, its effect is irrelevant to the stubs)'],
    'trusted_base': ['cbmc 6.11', 'goto-instrument 6.11', 'tools/fp2alg.py', 'z3'],
}

def REPRESENTATIVE(tier):
    return [stat_query(full_query('C18', 3, 0x1ff, (0, 1, 2), (0, 1, 2), CONFIGS[0]), 'C18')]
