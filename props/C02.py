"""C02 -- Pr*A*Pc = L*U, multipliers bounded by the threshold, diagonal preferred (DESIGN 3/C02)"""
from props.common import *

PIV_SRCS = ['pdgstrf_pivotL.c']

def pivot_queries(pid, tier, p='d'):
    qs = []
    for nsupc in (0, 1, 2):
        for ncand in (1, 2, 3) if tier != 'thorough' else (1, 2, 3, 4):
            nsupr = nsupc + ncand
            if tier != 'thorough' and nsupc == 2 and ncand == 3:
                continue      # 100-300 s each; thorough only
            for diag in range(-1, ncand):
                for usepr, old in [(0, -1)] + [(1, o) for o in range(-1, ncand)]:
                    defs = {'NSUPC': nsupc, 'NSUPR': nsupr, 'DIAG': '(%d)' % diag, 'OLD': '(%d)' % old, 'USEPR': usepr}
                    name = '%s.pivotL.c%d.r%d.d%d.o%d.u%d' % (pid, nsupc, nsupr, diag, old, usepr)
                    qs.append(Query(name, 'pivot_h.c', PIV_SRCS, defs=defs, engine='smt', mode='real', unwind=40,
                                    timeout=300, group='pivotL unit (real pivotL vs policy spec)'))
    return qs

META = {
    'level': 'model_checking',
    'engines': 'E2: cbmc symex of the real code -> SMT-LIB (--fpa) -> fp2alg Real -> z3 5.1',
    'bounds': {'whole-driver family': 'n<=3, all structurally non-singular patterns x all pivot preference orders (see C01)',
               'pivotL unit': 'supernode with 0..2 earlier columns and 1..3 (thorough: 4) candidate rows, every position of the diagonal / old pivot row, usepr YES/NO, u in [0,1], all real values'},
    'outside': ['IEEE rounding (gamma(n) bound)', 'n > 3 in the whole-driver family', 'complex arithmetic', 'thread interleavings (C03)'],
    'assumptions': ['floating point reinterpreted as the ordered field of reals',
                    'whole-driver family: pivot choice forced (all orders iterated), typed allocator stubs, synchronous workers (as C01)',
                    'pivotL unit: supernode state constructed directly (arbitrary values), so the result covers every state a real history can produce'],
    'trusted_base': ['cbmc 6.11', 'tools/fp2alg.py', 'z3 5.1.0'],
    'exhaustive_thorough': True,
}

def plan(tier, seed):
    return pivot_queries('C02', tier) + full_plan('C02', tier, seed + 17, quick_n3=90)

def REPRESENTATIVE(tier):
    return [pivot_queries('C02', 'quick')[5], full_query('C02', 3, 0x1ff, (0, 1, 2), (0, 1, 2), CONFIGS[0])]
