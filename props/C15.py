"""C15 -- illegal arguments: info = -i for the first offender, no side effects (DESIGN 3/C15)"""
from props.common import *

ROUT = {1: ('p%sgssv.c', 'p?gssv'), 2: ('p%sgssvx.c', 'p?gssvx'), 3: ('%sgstrs.c', '?gstrs'), 4: ('%sgsrfs.c', '?gsrfs'),
        5: ('%sgscon.c', '?gscon'), 6: ('%sgsequ.c', '?gsequ'), 7: ('%ssp_blas2.c', 'sp_?trsv'), 8: ('%ssp_blas2.c', 'sp_?gemv')}
PLN = {'s': 1, 'd': 2, 'c': 3, 'z': 4}
MALLOC = ['-UUSER_MALLOC', '-UUSER_FREE', '-DUSER_MALLOC(s)=vh_malloc(s)', '-DUSER_FREE(p)=vh_free(p)', '-include', '/verif/harness/vh_alloc.h']

def arg_query(pid, r, p):
    src = ROUT[r][0] % p
    name = '%s.args.%s.%s' % (pid, ROUT[r][1].replace('?', p), p)
    return Query(name, 'argchk_h.c', [(src, MALLOC), 'lsame.c'], defs={'ROUTINE': r, 'PLN': PLN[p]}, engine='sat',
                 unwind=8, timeout=600, group='argument checks ' + ROUT[r][1])

def plan(tier, seed):
    return [arg_query('C15', r, p) for r in ROUT for p in 'sdcz']

META = {
    'level': 'model_checking',
    'engines': 'E1: cbmc 6.11 bit-precise, MiniSat; the whole argument record is symbolic',
    'bounds': {'routines': 'p?gssv, p?gssvx, ?gstrs, ?gsrfs, ?gscon, ?gsequ, sp_?trsv, sp_?gemv in s/d/c/z',
               'argument records': 'every enum field in -1..6, dimensions -2..3, leading dimensions -1..4, nprocs -1..3, lwork -3..8, scale factors with sign -1/0/+1, nrhs fields -2..3',
               'violations': 'all single and multiple violations at once (every record with at least one illegal field)'},
    'outside': ['matrix orders above 3 (only the scans of R and C depend on the order)', 'the behaviour on legal arguments (other properties)'],
    'assumptions': ['oracle = first offending position, transcribed from the routines\' header comments',
                    'work routines have no body in these queries; reaching one is reported by CBMC as a failed no-body property',
                    '?lamch_ returns a constant (only used to form smlnum/bignum before the checks)'],
    'trusted_base': ['cbmc 6.11', 'MiniSat'],
    'exhaustive_quick': True, 'exhaustive_thorough': True,
}

def REPRESENTATIVE(tier):
    return [arg_query('C15', 2, 'd')]
