"""C14 -- workspace modes and allocation failure (DESIGN 3/C14)"""
from props.common import *
import random

ALLOC_SRCS = [('pdmemory.c', ['-Dstatic=']), 'pmemory.c', ('util.c', ['-Dsuperlu_abort_and_exit=real_superlu_abort_and_exit'])]
OPS = {1: 'user_malloc', 2: 'user_free', 3: 'WorkInit', 4: 'WorkFree-while-others-live', 5: 'expand-first-allocation', 6: 'WorkFree-last-thread', 7: 'SetupSpace-from-any-state', 8: 'work-arrays-cleared'}

def alloc_query(pid, op, size=64, timeout=900):
    q = Query('%s.alloc.%s.size%d' % (pid, OPS[op], size), 'alloc_h.c', ALLOC_SRCS + (['pdutil.c'] if op == 8 else []), defs={'OP': op, 'SIZE': size}, engine='sat',
              solver='kissat' if op in (1,) else 'minisat', unwind=6, timeout=timeout, group='user-workspace allocator, one step from an arbitrary valid state')
    q.unwind_big = 80
    return q

def plan(tier, seed):
    size = 64 if tier != 'thorough' else 256
    qs = [alloc_query('C14', op, {3: max(size, 160), 8: 136}.get(op, size)) for op in OPS]
    # the real expert driver down to the start of the workers: caller workspace of any size / alignment (refusal, retries with
    # halved requests, success) and the system allocator refusing the factor arrays from any request on
    from props.C17 import leakdrv_plan
    qs += [q for q in leakdrv_plan('C14', tier, seed) if '.s2.' in q.name or '.s3.' in q.name]
    # "results match the internally-allocated mode": the whole simple driver with per-thread work arrays whose old contents are
    # ARBITRARY (what ?user_malloc hands out of a recycled caller buffer), integer and real: same assertions as C01
    rnd = random.Random(seed + 14)
    combos = [(2, pat, pv) for pat in all_patterns(2) for pv in perms(2)] + rnd.sample([(3, pat, pv) for pat in all_patterns(3) for pv in perms(3)], 24 if tier != 'thorough' else 200)
    for k, (n, pat, pv) in enumerate(combos):
        q = full_query('C14', n, pat, pv, perms(n)[k % len(perms(n))], CONFIGS[k % len(CONFIGS)], nr=(k % 2 == 1), nprocs=1 + k % 3, nrhs=1 + (k % 4 == 0),
                       vendor=(k % 5 < 2), dyn=(k % 7 == 3), extra={'VH_IWORK_ARBITRARY': None}, tagx='.iwarb')
        q.group = 'whole driver n=%d, work arrays with arbitrary old contents' % n
        qs.append(q)
    return qs

META = {
    'level': 'model_checking',
    'engines': 'E1: cbmc 6.11 bit-precise (MiniSat / kissat); E2 (Real) for the whole-driver queries with arbitrary work-array contents',
    'bounds': {'buffer': 'lwork 0..64 bytes (thorough: 256), any base alignment 0..7', 'requests': '0..size+8 bytes', 'WorkInit': 'n 1..3, w 1..2, maxsuper/rowblk 1..2', 'whole driver, arbitrary work-array contents': 'real pdgssv as in C01 (n<=3, all n=2 patterns x pivot orders, 24 sampled at n=3; thorough 200), iwork/dwork handed to each worker uninitialised: info=0, Pr A Pc = L U, WF_LU, A X = B', 'work arrays cleared': 'WorkInit + pxgstrf_SetIWork + pdgstrf_SetRWork on a fresh stack over a buffer of <=136 bytes with ARBITRARY contents, any base alignment, n 1..2, w=1, maxsuper/rowblk 1..2: dense[], tempv[] all zero, repfnz[] all EMPTY (requests whose integer array would be misaligned for int are left out)',
               'state': 'arbitrary (top1, top2, used) satisfying the representation invariant, with one live block of another owner at each end',
    'driver': 'real pdgssvx + sp_colorder + pdgstrf_thread_init + ParallelInit + PresetMap + MemInit, n=2,3, 8 patterns, NC/NR, symmetric mode on/off, lwork 1..80n^2 bytes at any alignment (the whole range from nothing fits to everything fits), or the system allocator refusing every MemInit request from the k-th on (k symbolic)'},
    'outside': ['system-malloc mode of the per-thread work arrays', 'the whole-driver contents queries use the typed allocator stubs (arrays of exactly the library\'s sizes, uninitialised = arbitrary), not the byte-level stack', 'the memory-expansion branch of p?gstrf_expand (documented as not implemented in SuperLU_MT)',
                'buffers larger than the bound (the arithmetic is linear in the sizes)'],
    'assumptions': ['pdmemory.c compiled with -Dstatic= so the harness can set the file-scope allocator state (no other change)',
                    'the stack lock is a no-op: each allocator call is one atomic step'],
    'trusted_base': ['cbmc 6.11', 'MiniSat', 'kissat'],
}

def REPRESENTATIVE(tier):
    return [alloc_query('C14', 3)]
