"""C04 -- termination, exactly-once, no threads left (scheduler model checking, DESIGN 3/C04)"""
from props.common import *

SCHED_SRCS = ['pxgstrf_scheduler.c', 'pxgstrf_synch.c', 'pxgstrf_relax_snode.c', 'pxgstrf_mark_busy_descends.c', 'pmemory.c',
              ('util.c', ['-Dsuperlu_abort_and_exit=real_superlu_abort_and_exit'])]

def forests(n):
    """all postordered forests on n nodes as parent vectors (root parent = n)"""
    out = []
    def rec(i, par):
        if i == n:
            # postorder: for every i, all k in (i, par[i]) have par[k] <= par[i]
            ok = all(par[k] <= par[j] for j in range(n) for k in range(j + 1, min(par[j], n)))
            if ok:
                out.append(tuple(par))
            return
        for p in range(i + 1, n + 1):
            rec(i + 1, par + [p])
    rec(0, [])
    return out

def sched_query(pid, nmax, P, steps, tree=None, solver='minisat', timeout=900, drain=None, tag='', markbusy=False, witness=True, snbreak=1, wmax=6):
    # wmax: panel sizes 1..wmax.  ParallelInit halves the panel width near the top of the tree (SPLIT_TOP: everywhere when
    # n < 12*panel_size), so regular panels of width 2 / 3 only exist for panel sizes 4..5 / 6..7
    defs = {'NMAX': nmax, 'P': P, 'STEPS': steps, 'SNODE_BREAK': snbreak, 'WMAX': wmax}
    if markbusy:
        defs['WITH_MARK_BUSY'] = None
    if drain:
        defs['DRAIN'] = drain
    if tree is not None:
        defs['FIXTREE'] = cinit(tree)
    name = '%s.sched.n%d.P%d.s%d.%s%s%s' % (pid, nmax, P, steps, 'sym' if tree is None else 't' + ''.join(map(str, tree)), '.mb%d' % snbreak if markbusy else '', tag)
    q = Query(name, 'sched_h.c', SCHED_SRCS, defs=defs, engine='sat', solver=solver, unwind=nmax + 2,
              unwindset={'ParallelInit.0': 8, 'main.11': steps + 1},
              timeout=timeout, group='scheduler n=%d P=%d %s' % (nmax, P, 'symbolic forest' if tree is None else 'fixed forest'))
    q.unwind_big = max(steps + 2, 10)
    q.witness = witness
    return q

def sched_plan(pid, tier, seed, markbusy=False):
    from functools import partial
    sched_query = partial(globals()['sched_query'], wmax=(3 if markbusy else 6))   # C03 (markbusy) keeps panel sizes 1..3: its subject is the busy-descendant bookkeeping
    import random
    rnd = random.Random(seed)
    qs = []
    # symbolic forest: every postordered forest on n nodes in ONE query
    for n in (1, 2, 3):
        qs.append(sched_query(pid, n, 2, 2 * n + 5, markbusy=markbusy, snbreak=n % 2))
    qs.append(sched_query(pid, 1, 3, 8, markbusy=markbusy))        # more workers than columns
    qs.append(sched_query(pid, 2, 3, 10, markbusy=markbusy))
    f4 = forests(4)
    if tier == 'thorough':
        qs.append(sched_query(pid, 3, 3, 12, timeout=3000, markbusy=markbusy))
        for i, t in enumerate(f4):
            qs.append(sched_query(pid, 4, 2, 12, tree=t, timeout=3000, markbusy=markbusy, witness=(i % 5 == 0), snbreak=i % 2))
        for i, t in enumerate(forests(5)):
            qs.append(sched_query(pid, 5, 2, 14, tree=t, timeout=6000, markbusy=markbusy, witness=False, snbreak=i % 2))
    else:
        sel = [(2, 2, 3, 4)] + rnd.sample([t for t in f4 if t != (2, 2, 3, 4)], 5)   # (2,2,3,4): two leaves under one parent, then the root: the smallest non-path relaxed supernode
        for i, t in enumerate(sel):
            qs.append(sched_query(pid, 4, 2, 12, tree=t, markbusy=markbusy, witness=(i == 0), snbreak=i % 2))
    return qs

META = {
    'level': 'model_checking',
    'engines': 'E1: cbmc 6.11 bit-precise, MiniSat; symbolic schedule, symbolic panel size/relax, symbolic or enumerated forest',
    'bounds': {'columns': 'quick: all postordered forests n<=3 (symbolic, one query each) and 6 of the 14 forests with n=4; thorough: + P=3 at n=3, all 14 with n=4, all 42 with n=5',
               'workers': 'P=2; P=3 for n<=2 (thorough n<=3)', 'panel size': '1..6 (regular panels of width 1..3 after the top-of-tree halving)', 'relax': '1..3',
               'steps': 'symbolic prefix of STEPS scheduler/finish moves followed by a deterministic round-robin drain'},
    'outside': ['instruction-level interleaving inside the scheduler critical section (mutual exclusion trusted to pthreads)',
                'memory ordering of the volatile spin flags', 'P > 3', 'forests with more than 5 columns',
                'fairness of the OS scheduler'],
    'assumptions': ['critical sections are atomic harness steps (pthread_mutex_* are no-ops)',
                    'a worker holding a regular panel releases one column per step after all its descendant columns are released (the exact awaited set is checked in C03)',
                    'workers follow the loop structure of pdgstrf_thread (while tasks_remain > 0: scheduler; work)'],
    'trusted_base': ['cbmc 6.11', 'MiniSat'],
    'exhaustive_quick': False, 'exhaustive_thorough': True,
}

def plan(tier, seed):
    return sched_plan('C04', tier, seed)

def REPRESENTATIVE(tier):
    return [sched_query('C04', 3, 2, 10)]
