"""C16 -- symmetric mode with diagonal pivoting is correct and keeps diagonal pivots (DESIGN 3/C16)"""
from props.common import *
from props.C02 import pivot_queries
from props.C10 import plan as c10plan
import random

def fulldiag(n, pat):
    return all((pat >> (i + i * n)) & 1 for i in range(n))

def plan(tier, seed):
    rnd = random.Random(seed)
    qs = []
    k = 0
    for n in (1, 2, 3):
        pats = [p for p in range(1 << (n * n)) if fulldiag(n, p)]
        if n == 3 and tier != 'thorough':
            pats = rnd.sample(pats, 40)
        for pat in pats:
            for pc in (perms(n) if n < 3 else [perms(3)[(pat + t) % 6] for t in range(2)]):
                k += 1
                qs.append(fullx_query('C16', n, pat, tuple(range(n)), pc, CONFIGS[k % len(CONFIGS)], trans=k % 3, sym=True, nprocs=1 + k % 2))
    # sparse 5x5 instances with relaxed supernodes (relax 1..3): relax >= 2 on this pattern is known finding F9
    f9 = (1 << 0) | (1 << 6) | (1 << 7) | (1 << 12) | (1 << 18) | (1 << 22) | (1 << 24)
    for rl in (1, 2, 3):
        qs.append(fullx_query('C16', 5, f9, (0, 1, 2, 3, 4), (0, 1, 2, 3, 4), (1, rl, 6, 2, 2), sym=True, tagx='.f9'))
    # ordering side: etree / counts of Pc (A + A^T) Pc^T, symbolic input permutation
    qs += c10plan(tier, seed, pid='C16', sym_only=True)
    # the real pivotL prefers a non-zero diagonal at threshold 0 (u symbolic in [0,1] includes 0)
    qs += [q for q in pivot_queries('C16', 'quick') if '.u0' in q.name and '.d-1.' not in q.name and '.c2.' not in q.name]
    return qs

META = {
    'level': 'model_checking',
    'engines': 'E2 (Real) whole expert driver in symmetric mode with diagonal pivots and hook H1 (slot bound from the Cholesky counts); E1 for the symmetric preprocessing; E2 for the real pivotL',
    'bounds': {'driver': 'n<=3, every pattern with full diagonal (n=3: 40 sampled in quick), column permutations, w/relax/maxsuper 1..3, all values for which the diagonal pivots are non-zero',
               'preprocessing': 'as C10 with SymmetricMode on (n<=4 symbolic permutation, n=5 concrete): etree, exact Cholesky column counts, nested supernodes', 'pivotL': 'as C02: diagonal chosen whenever non-zero and passing the threshold (u = 0 included)'},
    'outside': ['n > 3', 'diagonal dominance itself (the queries assume the diagonal pivots are non-zero, which dominance guarantees)', 'rounding', 'thread interleavings'],
    'assumptions': ['pivot forced to the diagonal row in the driver queries; that the real pivotL chooses it is the pivotL unit result'],
    'trusted_base': ['cbmc 6.11', 'MiniSat', 'tools/fp2alg.py', 'z3'],
}

def REPRESENTATIVE(tier):
    return [fullx_query('C16', 3, 0x1ff, (0, 1, 2), (0, 1, 2), CONFIGS[0], sym=True)]
