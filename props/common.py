"""shared pieces of the per-property plans"""
import itertools, random, sys, os
sys.path.insert(0, os.path.join(os.path.dirname(os.path.dirname(os.path.abspath(__file__))), 'tools'))
from vcore import Query

# ---- the real translation units of the factorization pipeline (double precision) -------
def pipeline_srcs(p='d'):
    P = 'p' + p
    mem_renames = ['-D%sgstrf_MemInit=real_%sgstrf_MemInit' % (P, P),
                   '-D%sgstrf_WorkInit=real_%sgstrf_WorkInit' % (P, P),
                   '-D%sgstrf_WorkFree=real_%sgstrf_WorkFree' % (P, P)]
    return [
        P + 'gstrf_init.c', 'sp_colorder.c', 'sp_coletree.c', 'qrnzcnt.c', 'cholnzcnt.c', 'get_perm_c.c', 'colamd.c', 'mmd.c',
        P + 'gstrf.c', P + 'gstrf_thread_init.c', P + 'gstrf_thread.c', P + 'gstrf_thread_finalize.c',
        P + 'gstrf_factor_snode.c', P + 'gstrf_snode_dfs.c', P + 'gstrf_snode_bmod.c',
        P + 'gstrf_panel_dfs.c', P + 'gstrf_panel_bmod.c', P + 'gstrf_bmod1D.c', P + 'gstrf_bmod2D.c',
        P + 'gstrf_column_dfs.c', P + 'gstrf_column_bmod.c', P + 'gstrf_copy_to_ucol.c',
        'pxgstrf_pruneL.c', 'pxgstrf_relax_snode.c', 'pxgstrf_scheduler.c', 'pxgstrf_synch.c',
        'pxgstrf_mark_busy_descends.c', 'pxgstrf_super_bnd_dfs.c', 'pxgstrf_finalize.c', 'pmemory.c',
        ('util.c', ['-Dsuperlu_abort_and_exit=real_superlu_abort_and_exit']), P + 'util.c', p + 'gstrs.c',
        p + 'myblas2.c', p + 'sp_blas2.c', p + 'sp_blas3.c', 'lsame.c', 'await.c',
        (P + 'memory.c', mem_renames),
    ]


def full_srcs(p='d'):
    """sources of the whole simple driver, with the solve call routed through the harness cut"""
    return pipeline_srcs(p) + [('p%sgssv.c' % p, ['-D%sgstrs=vh_%sgstrs_cut' % (p, p)])]


# ---- sparsity patterns ------------------------------------------------------------------
def pat_bits(n, pat):
    return [[(pat >> (i + j * n)) & 1 for j in range(n)] for i in range(n)]   # [i][j]


def struct_nonsingular(n, pat):
    m = pat_bits(n, pat)
    return any(all(m[p[j]][j] for j in range(n)) for p in itertools.permutations(range(n)))


def struct_rank_prefix(n, pat, k):
    """structural rank of the first k columns (columns in the given order)"""
    m = pat_bits(n, pat)
    best = 0
    for rows in itertools.permutations(range(n), k):
        pass
    # maximum matching by brute force over column subsets
    def match(cols):
        for rows in itertools.permutations(range(n), len(cols)):
            if all(m[r][c] for r, c in zip(rows, cols)):
                return True
        return False
    for size in range(k, 0, -1):
        for cols in itertools.combinations(range(k), size):
            if match(cols):
                return size
    return 0


def all_patterns(n, nonsingular=True):
    out = []
    for pat in range(1 << (n * n)):
        if not nonsingular or struct_nonsingular(n, pat):
            out.append(pat)
    return out


def cinit(seq):
    return '{' + ','.join(str(x) for x in seq) + '}'


def perms(n):
    return list(itertools.permutations(range(n)))


CONFIGS = [  # (W, RELAX, MAXSUP, ROWBLK, COLBLK)
    (1, 1, 3, 2, 2), (2, 1, 3, 2, 2), (3, 1, 3, 2, 2), (1, 2, 3, 2, 2), (1, 3, 3, 2, 2),
    (2, 2, 2, 1, 1), (1, 1, 1, 1, 1), (2, 1, 2, 1, 1), (3, 3, 2, 3, 3), (2, 3, 1, 2, 1),
    (1, 1, 2, 1, 2), (3, 2, 3, 1, 1),
]


def full_query(pid, n, pat, pref, permc, cfg, nr=False, nprocs=1, nrhs=1, ldb=None, vendor=False,
               dyn=False, mode='real', prime=13, timeout=120, harness='full_h.c', extra=None, p='d',
               tagx=''):
    W, RELAX, MAXSUP, ROWBLK, COLBLK = cfg
    defs = {'N': n, 'PAT': hex(pat), 'VH_PIVPREF': cinit(pref), 'VH_PERMC': cinit(permc),
            'VH_W': W, 'VH_RELAX': RELAX, 'VH_MAXSUP': MAXSUP, 'VH_ROWBLK': ROWBLK, 'VH_COLBLK': COLBLK,
            'NPROCS': nprocs, 'NRHS': nrhs}
    if ldb:
        defs['LDB'] = ldb
    if nr:
        defs['VH_NR'] = None
    if dyn:
        defs['VH_GETENV_NONNULL'] = None
    if extra:
        defs.update(extra)
    cflags = ['-DUSE_VENDOR_BLAS'] if vendor else []
    name = '%s.full.n%d.p%x.pv%s.pc%s.w%d%d%d%d%d%s%s%s%s.P%d.r%d%s' % (
        pid, n, pat, ''.join(map(str, pref)), ''.join(map(str, permc)), W, RELAX, MAXSUP, ROWBLK, COLBLK,
        '.nr' if nr else '', '.vb' if vendor else '', '.dyn' if dyn else '', '.' + p, nprocs, nrhs, tagx)
    return Query(name, harness, full_srcs(p), defs=defs, engine='smt', mode=mode, prime=prime,
                 unwind=8 * n + 40, timeout=timeout, cflags=cflags, group='full-driver n=%d' % n)


def full_plan(pid, tier, seed, quick_n3=120, **kw):
    """the whole-driver query family shared by C01/C02/C09: all structurally non-singular patterns x
    all pivot preference orders; tuning parameters, storage orientation, nprocs, nrhs and BLAS
    configuration spread over the queries deterministically (every value of each occurs many times)"""
    rnd = random.Random(seed)
    qs = []
    variants = []
    for n in (1, 2):
        for pat in all_patterns(n):
            for pref in perms(n):
                for ci, cfg in enumerate(CONFIGS[:8]):
                    variants.append((n, pat, pref, cfg, ci))
    k = 0
    for (n, pat, pref, cfg, ci) in variants:
        k += 1
        qs.append(full_query(pid, n, pat, pref, tuple(range(n)) if k % 3 else tuple(reversed(range(n))), cfg,
                             nr=(k % 2 == 0), nprocs=1 + (k % 3 == 0), nrhs=1 + (k % 4 == 0),
                             vendor=(k % 5 < 2), dyn=(k % 7 == 0), **kw))
    pats3 = all_patterns(3)
    combos = [(pat, pref) for pat in pats3 for pref in perms(3)]
    if tier != 'thorough':
        rnd.shuffle(combos)
        combos = combos[:quick_n3]
    for k, (pat, pref) in enumerate(sorted(combos)):
        cfg = CONFIGS[(k * 7 + pat) % len(CONFIGS)]
        pc = perms(3)[(k // 3 + pat) % 6]
        qs.append(full_query(pid, 3, pat, pref, pc, cfg, nr=(k % 2 == 1), nprocs=1 + (k % 3),
                             nrhs=1 + (k % 5 == 0), ldb=(4 if k % 4 == 0 else None), vendor=(k % 5 < 2),
                             dyn=(k % 7 == 3), **kw))
    return qs


def fullx_srcs(p='d'):
    return pipeline_srcs(p) + [('p%sgssvx.c' % p, ['-D%sgstrs=vh_%sgstrs_cut' % (p, p)]), p + 'pivotgrowth.c', p + 'langs.c']


def fullx_query(pid, n, pat, pref, permc, cfg, trans=0, nr=False, sym=False, scen=0, usepr=0, nprocs=1, timeout=300, tagx=''):
    W, RELAX, MAXSUP, ROWBLK, COLBLK = cfg
    defs = {'N': n, 'PAT': hex(pat), 'VH_PIVPREF': cinit(pref), 'VH_PERMC': cinit(permc), 'VH_W': W, 'VH_RELAX': RELAX, 'VH_MAXSUP': MAXSUP,
            'VH_ROWBLK': ROWBLK, 'VH_COLBLK': COLBLK, 'NPROCS': nprocs, 'VH_TRANS': trans, 'SCEN': scen, 'VH_SYM': 1 if sym else 0, 'VH_USEPR': usepr}
    if nr:
        defs['VH_NR'] = None
    if sym:
        defs['VH_DIAG_PIVOT'] = None
    name = '%s.fullx.n%d.p%x.pv%s.pc%s.w%d%d%d.t%d%s%s.s%d.u%d.P%d%s' % (pid, n, pat, ''.join(map(str, pref)), ''.join(map(str, permc)), W, RELAX, MAXSUP,
                                                                      trans, '.nr' if nr else '', '.sym' if sym else '', scen, usepr, nprocs, tagx)
    return Query(name, 'fullx_h.c', fullx_srcs('d'), defs=defs, engine='smt', mode='real', unwind=8 * n + 40, timeout=timeout,
                 group='expert driver %s n=%d' % ({0: 'one call', 1: 'factor / re-factor / reuse'}[scen] + (' symmetric mode' if sym else ''), n))


def big_query(pid, n, pat, pref, cfg, keep, nr=False, vendor=False, dyn=False, timeout=600, tagx=''):
    """whole simple driver on a larger shape: all entries pinned to generic values except the `keep` positions"""
    mask = sum(1 << b for b in range(n * n) if b not in keep and (pat >> b) & 1)
    q = full_query(pid, n, pat, pref, tuple(range(n)), cfg, nr=nr, vendor=vendor, dyn=dyn, timeout=timeout,
                   extra={'VH_CONCRETE_MASK': hex(mask) + 'UL'}, tagx='.big' + tagx)
    q.group = 'whole driver, larger shape n=%d (3 symbolic entries)' % n
    q.witness_defs = {'VH_CONCRETE_MASK': hex((1 << (n * n)) - 1) + 'UL'}
    return q


def shapes_big(n):
    full = (1 << (n * n)) - 1
    band = sum(1 << (i + j * n) for i in range(n) for j in range(n) if abs(i - j) <= 1)
    arrow = sum(1 << (i + j * n) for i in range(n) for j in range(n) if i == j or i == n - 1 or j == n - 1)
    lowerplus = sum(1 << (i + j * n) for i in range(n) for j in range(n) if i >= j or j == i + 2)
    shapes = {'dense': full, 'band': band, 'arrow': arrow, 'lowerplus': lowerplus}
    if n >= 6:
        # lower triangle (one supernode of n-1 columns) + a last column whose U-segment starts at row 1: the segment is
        # longer than 3 and starts in the middle of the supernode (general path of the 1-D / 2-D block updates)
        shapes = {'lowseg': sum(1 << (i + j * n) for i in range(n) for j in range(n) if (i >= j and j < n - 1) or (j == n - 1 and i >= 1)),
                  'lowseg2': sum(1 << (i + j * n) for i in range(n) for j in range(n) if (i >= j and j < n - 2) or (j >= n - 2 and i >= 2))}
    return shapes


BIGCFG = [(1, 1, 6, 1, 1), (2, 1, 6, 2, 2), (3, 1, 4, 1, 2), (1, 6, 6, 2, 1), (2, 3, 5, 1, 1), (3, 2, 6, 3, 2), (1, 1, 6, 2, 3), (2, 1, 5, 1, 3)]


def big_plan(pid, tier, seed):
    qs = []
    k = 0
    for n in ((5, 6) if tier != 'thorough' else (4, 5, 6)):
        for name, pat in shapes_big(n).items():
            prefs = (tuple(range(n)),) if n >= 6 else (tuple(range(n)), tuple(reversed(range(n))), tuple((i * 2 + 1) % n if n % 2 else (i + n // 2) % n for i in range(n)))
            if name == 'dense' and n < 6:
                prefs = prefs[:2]     # the third order on the dense shape: its all-pinned witness did not finish in 600 s
            for pref in prefs:
                if len(set(pref)) != n:
                    continue
                for cfg in (BIGCFG if (tier == 'thorough' or n >= 6) else [BIGCFG[(k + t) % len(BIGCFG)] for t in range(2)]):
                    k += 1
                    keep = {pref[1] + 0 * n, pref[n - 1] + (n - 2) * n, pref[n - 1] + (n - 1) * n}
                    for vendor in ((False, True) if n >= 6 else ((k % 3 == 0),)):
                        qs.append(big_query(pid, n, pat, pref, cfg, keep, nr=(k % 2 == 0), vendor=vendor, dyn=(k % 4 == 0), tagx='.' + name))
    return qs
