"""C11 -- equilibration: scale factors, application rule and reported flag agree (DESIGN 3/C11)"""
from props.common import *
import random

EQU_SRCS = ['dgsequ.c', 'dlaqgs.c']

def equ_query(pid, m, n, pat, group, timeout=300, single=False):
    defs = {'M': m, 'N': n, 'PAT': hex(pat), 'GROUP': group}
    if single:
        defs['VH_SINGLE'] = None
    return Query('%s.equ.%sm%dn%d.p%x.g%d' % (pid, 's.' if single else '', m, n, pat, group), 'equ_h.c', ['sgsequ.c', 'slaqgs.c'] if single else EQU_SRCS,
                 defs=defs, engine='smt', mode='real', unwind=40, timeout=timeout,
                 group='dgsequ/dlaqgs %dx%d group %d' % (m, n, group))

def plan(tier, seed, pid='C11'):
    rnd = random.Random(seed)
    qs = []
    for (m, n) in [(1, 1), (1, 2), (2, 1), (2, 2)]:
        for pat in range(1 << (m * n)):
            for g in (1, 2):
                qs.append(equ_query(pid, m, n, pat, g))
    # single precision: same routines with the float machine constants
    for pat in (1, 0xf, 0x9, 0x6, 0x7):
        for g in (1, 2):
            qs.append(equ_query(pid, 2 if pat > 1 else 1, 2 if pat > 1 else 1, pat, g, single=True))
    if tier == 'thorough':
        for pat in range(512):
            for g in (1, 2):
                if g == 2 or bin(pat).count('1') <= 6:     # group 1 on denser 3x3 patterns does not finish (non-linear max/clip reasoning)
                    qs.append(equ_query(pid, 3, 3, pat, g, 900))
    else:
        for pat in rnd.sample([p for p in range(512) if bin(p).count('1') <= 5], 12):
            for g in (1, 2):
                qs.append(equ_query(pid, 3, 3, pat, g))
    # driver part of the contract: which of R / C scales B and X, for every trans x storage x fact x flag, 1 and 2 right-hand sides
    from props.C07 import plan as c07plan
    qs += c07plan(tier, seed, pid='C11')
    return qs

META = {
    'level': 'model_checking',
    'engines': 'E2: cbmc symex of the real dgsequ/dlaqgs -> SMT-LIB -> fp2alg Real -> z3 5.1',
    'bounds': {'matrices': 'every m x n pattern with m,n<=2 (incl. empty rows/columns, 1x1); 3x3: quick 12 sampled patterns with <= 5 entries, thorough all 512 for the apply step and all with <= 6 entries for the scale-factor group (denser ones did not finish within the cap on the unchanged tree)',
               'values': 'all reals; safe minimum / precision are the exact IEEE double constants (float constants for the single-precision queries)', 'precisions': 'd; s on five 1x1/2x2 patterns'},
    'outside': ['finiteness / overflow of products near the clipping bounds (IEEE range)', 'complex |z| = |re|+|im| variants', 'values of X (the driver queries use recording stubs for the solve)'],
    'assumptions': ['floating point reinterpreted as the ordered field of reals; dlamch_ replaced by exact constants'],
    'trusted_base': ['cbmc 6.11', 'tools/fp2alg.py', 'z3 5.1.0'],
    'exhaustive_thorough': True,
}

def REPRESENTATIVE(tier):
    return [equ_query('C11', 2, 2, 0xf, 1)]
