"""C20 -- file readers return exactly the matrix a well-formed file encodes (parsing half; DESIGN 3/C20)"""
from props.common import *

def rd_query(pid, mode, src, p='d'):
    vec = 'dReadVector' if 'hb' in src else 'ReadVector'
    fl = ['-Dstatic=']
    defs = {'MODE': mode, 'VECFN': vec}
    if p != 'd':   # the s/c/z readers have the same helpers under their own prefix
        defs.update({'dParseIntFormat': p + 'ParseIntFormat', 'dParseFloatFormat': p + 'ParseFloatFormat', 'dReadValues': p + 'ReadValues'})
        if 'hb' in src:
            defs['VECFN'] = p + 'ReadVector'
    q = Query('%s.read.%s.mode%d' % (pid, src.replace('.c', ''), mode), 'read_h.c', [(src, fl)], defs=defs, engine='sat', unwind=8, timeout=900,
              solver='minisat', group={1: 'integer edit descriptor', 2: 'real edit descriptor', 3: 'ReadVector', 4: 'ReadValues'}[mode])
    q.unwind_big = 30
    return q

def plan(tier, seed):
    qs = []
    for src in ('dreadhb.c', 'dreadrb.c'):
        for mode in (1, 2, 3, 4):
            qs.append(rd_query('C20', mode, src))
    for (src, p) in (('sreadhb.c', 's'), ('sreadrb.c', 's')):
        for mode in (1, 2, 3):
            qs.append(rd_query('C20', mode, src, p))
    # double-complex readers: values come in (real, imaginary) pairs
    for src in ('zreadhb.c', 'zreadrb.c'):
        q = rd_query('C20', 4, src, 'z')
        q.defs['CPLX'] = None
        q.name += '.cplx'
        qs.append(q)
    return qs

META = {
    'level': 'model_checking',
    'engines': 'E1: cbmc 6.11 bit-precise; fgets replaced by a symbolic in-memory stream, atof by a recording stub, atoi = reference implementation in the harness',
    'bounds': {'descriptors': '(nIw), (nEw.d), (kPnEw.d) with n<=40, w<=25, d<=16, k<=2, E/D/F and I in either case, 0..3 leading blanks, field of 16/20 characters',
               'vectors/values': 'n<=4 items, 1..3 per line, field width 2..5 (lines well under 80 columns), integer values 1..99, arbitrary numeric field text over the alphabet 0-9 . + - E e D d blank'},
    'outside': ['decimal->binary conversion (libc strtod)', 'the header lines read with fscanf and the triplet reader ?readmt (scanf on stdin): formatted input of libc is not encoded',
                'single-complex readers', 'files longer than the bounds'],
    'assumptions': ['dread*.c compiled with -Dstatic= so that the helper functions can be called'],
    'trusted_base': ['cbmc 6.11', 'reference atoi in harness/read_h.c', 'MiniSat'],
}

def REPRESENTATIVE(tier):
    return [rd_query('C20', 3, 'dreadhb.c')]
