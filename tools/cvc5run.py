#!/opt/veriftools/pyvenv/bin/python
"""Run an SMT-LIB2 file through the cvc5 1.4 python binding (the only cvc5 here with the
finite-field theory).  Prints the check-sat result; with --model prints (get-value) lines."""
import sys, cvc5
def main():
    s = cvc5.Solver()
    for o in sys.argv[2:]:
        k, v = o.split('=', 1)
        s.setOption(k, v)
    p = cvc5.InputParser(s)
    p.setFileInput(cvc5.InputLanguage.SMT_LIB_2_6, sys.argv[1])
    sm = p.getSymbolManager()
    while True:
        c = p.nextCommand()
        if c.isNull():
            break
        r = c.invoke(s, sm)
        if str(r).strip():
            print(str(r).strip()); sys.stdout.flush()
main()
