#!/usr/bin/env python3
"""split a (rewritten) CBMC VC into one query per property instance and time each"""
import re,subprocess,time,sys
t=open(sys.argv[1]).read()
solver=sys.argv[2:] or ['z3-new']
i=t.rindex('(assert (or ')
j=t.index('\n',i)
bs=re.findall(r'B\d+',t[i:j])
head=t[:i]
defs=dict(re.findall(r'\(define-fun (B\d+) \(\) Bool (.*)\)\n',head))
leaves=[]
for b in bs:
    d=defs.get(b,'')
    m=re.fullmatch(r'\(not \(and ((?:B\d+ ?)+)\)\)',d)
    if m:
        for c in m.group(1).split(): leaves.append((b,'(not %s)'%c))
    else: leaves.append((b,b))
print(len(bs),'properties',len(leaves),'instances')
for b,e in leaves:
    open('q.smt2','w').write(head+'(assert %s)\n(check-sat)\n'%e)
    t0=time.time()
    try: r=subprocess.run(solver+['q.smt2'],capture_output=True,text=True,timeout=int(60)).stdout.strip()
    except subprocess.TimeoutExpired: r='TIMEOUT'
    print(b,e,r,'%.1f'%(time.time()-t0)); sys.stdout.flush()
