#!/usr/bin/env python3
"""debug aid: build one query natively (ASan+UBSan, -g) and keep the executable: tools/natq.py <pid> <regex> [outdir]"""
import sys, os, re, importlib
sys.path.insert(0, '/verif'); sys.path.insert(0, '/verif/tools')
import vcore, check
pid, rx = sys.argv[1], sys.argv[2]
out = sys.argv[3] if len(sys.argv) > 3 else '/x/nat'
os.makedirs(out, exist_ok=True)
mod = importlib.import_module('props.' + pid)
q = [q for q in mod.plan(os.environ.get('VERIF_TIER', 'quick'), 1) if re.search(rx, q.name)][0]
q.cflags = list(q.cflags) + ['-g']
exe, err = check.native_build(q, out, re.sub(r'[^A-Za-z0-9_.]', '_', q.name))
print(q.name); print(exe or err)
