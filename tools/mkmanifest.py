#!/usr/bin/env python3
"""regenerate MANIFEST.json from props/*.py (CLAIMED table below) -- keeps the manifest valid"""
import json, os, sys, importlib
V = os.path.dirname(os.path.dirname(os.path.abspath(__file__)))
sys.path.insert(0, V); sys.path.insert(0, os.path.join(V, 'tools'))
ALL = ['C%02d' % i for i in range(1, 21)]
checks, na = [], []
for pid in ALL:
    try:
        mod = importlib.import_module('props.' + pid)
    except ModuleNotFoundError:
        na.append({'property_id': pid, 'reason': 'no solver-based check committed yet for this property (work in progress; see DESIGN.md section 3)'})
        continue
    if getattr(mod, 'NOT_APPLICABLE', None):
        na.append({'property_id': pid, 'reason': mod.NOT_APPLICABLE})
        continue
    m = mod.META
    checks.append({
        'property_id': pid,
        'quick_cmd': './check %s --tier quick' % pid,
        'thorough_cmd': './check %s --tier thorough' % pid,
        'evidence_file': 'evidence/%s.json' % pid,
        'replay_cmd_template': './check %s --replay {path}' % pid,
        'engine': 'cbmc+z3',
        'level_claimed': {'category': m.get('level', 'model_checking'),
                          'text': m.get('claim', m.get('engines', '')), 'design_ref': 'DESIGN.md section 3/' + pid},
        'level_note': '; '.join(m.get('assumptions', []))[:1800],
        'technique': m.get('technique', 'bounded symbolic execution of the real C code (cbmc 6.11) decided by SAT / by z3 after FP->Real reinterpretation'),
    })
man = {
    'version': 1,
    'setup_cmd': 'true',
    'hooks': {'guard': 'XIAOYELI_SUPERLU_MT_VERIF',
              'enable': 'checks compile /repo/SRC with goto-cc -DXIAOYELI_SUPERLU_MT_VERIF (tools/vcore.py BASE_FLAGS)',
              'baseline_off_cmd': 'cmake --build /repo/_build && ctest --test-dir /repo/_build -j8 --timeout 900',
              'source_commits': json.load(open(os.path.join(V, 'hooks.json'))) if os.path.exists(os.path.join(V, 'hooks.json')) else [],
              'add_only': True},
    'engines': [{'name': 'cbmc+z3', 'path': 'tools/check.py', 'serves_properties': [c['property_id'] for c in checks],
                 'kind_free_text': 'goto-cc/cbmc 6.11 symbolic execution of /repo/SRC; SAT (minisat/cadical/kissat) for integer/pointer harnesses; SMT-LIB export + tools/fp2alg.py (FloatingPoint -> Real or GF(p)) + z3 5.1 for numeric harnesses'}],
    'checks': checks,
    'not_applicable': na,
    'notes': 'see DESIGN.md; every check regenerates its goto binaries from /repo working tree on each run',
}
json.dump(man, open(os.path.join(V, 'MANIFEST.json'), 'w'), indent=1)
print('checks:', [c['property_id'] for c in checks], 'n/a:', [x['property_id'] for x in na])
