#!/bin/bash
# usage: saveseed.sh <seed id> <property> <patch> <demo dir> <needs> <detected-by>
ID=$1; PROP=$2; PATCH=$3; DEMO=$4; NEEDS=$5; DET=$6
D=/verif/seeded/$ID; mkdir -p $D/demo
cp $PATCH $D/patch.diff
for f in $DEMO/*; do case "$f" in *.o|*/orig|*/_build) ;; *) [ -f "$f" ] && [ $(stat -c %s "$f") -lt 200000 ] && cp "$f" $D/demo/ ;; esac; done
[ -f $(dirname $DEMO)/NOTES.md ] && cp $(dirname $DEMO)/NOTES.md $D/NOTES.md
python3 - "$ID" "$PROP" "$NEEDS" "$DET" <<'PY'
import json,sys
id,prop,needs,det=sys.argv[1:5]
json.dump({"seed":id,"breaks_property":prop,"needs_to_manifest":needs,"origin":"independent sub-agent given only the property text and a scratch worktree",
 "confirmed":"tools/confirm_seed.sh: library builds, 48/48 ctest pass with the change, demo/run.sh exits non-zero on the changed tree and 0 on the unchanged tree",
 "detected_by":det},open('/verif/seeded/%s/meta.json'%id,'w'),indent=1)
PY
ls $D
