#!/usr/bin/env python3
"""debug aid: build one query and run plain cbmc on it (bit-precise), printing failed properties"""
import sys, os, re, importlib, subprocess
sys.path.insert(0, '/verif'); sys.path.insert(0, '/verif/tools')
import vcore
pid, rx = sys.argv[1], sys.argv[2]
extra = sys.argv[3:]
mod = importlib.import_module('props.' + pid)
q = [q for q in mod.plan(os.environ.get('VERIF_TIER', 'quick'), 1) if re.search(rx, q.name)][0]
r = vcore.Runner('dbg_' + pid, 'quick', 1)
r.builder.prebuild([q])
gb = r.link(q, '--witness' in extra)
extra = [e for e in extra if e != '--witness']
flags = vcore.CBMC_SMT_FLAGS if q.engine == 'smt' else vcore.CBMC_SAT_FLAGS
cmd = ['cbmc', gb] + [f for f in flags if f != '--slice-formula'] + ([] if '--unwind' in extra else r.unwind_args(q)) + q.extra_cbmc + extra
print(' '.join(cmd))
p = subprocess.run(['timeout', '300'] + cmd, capture_output=True, text=True)
for l in p.stdout.split('\n'):
    if 'FAILURE' in l or 'VERIFICATION' in l or 'error' in l.lower():
        print(l[:300])
