#!/usr/bin/env python3
"""check -- entry point of every check registered in MANIFEST.json.

    ./check C02 [--tier quick|thorough]      run the property's queries, write evidence/C02.json
    ./check C02 --replay replay/C02-xxx.json re-run one recorded counterexample natively

exit 0: property held on everything explored (KNOWN-FINDING lines allowed)
exit 1: a violation that reproduced; prints  VIOLATION property=<id> replay=<path>
exit 2: inconclusive (timeout, tool error, unreachable witness, solver disagreement):
        never reported as success, never as a violation
"""
import argparse, importlib, json, os, re, subprocess, sys, time, fractions, struct

sys.path.insert(0, os.path.dirname(os.path.abspath(__file__)))
import vcore
from vcore import VERIF, HARN, SRC, REPO, sh

KNOWN = os.path.join(VERIF, 'known_findings.json')


def load_known(pid):
    try:
        data = json.load(open(KNOWN))
    except Exception:
        return []
    return [f for f in data.get('findings', []) if f.get('property') == pid]


def match_known(known, q, failmsg):
    for f in known:
        if f.get('status') != 'open':
            continue
        if f.get('harness') and f['harness'] != q.harness:
            continue
        if f.get('assertion') and not re.search(f['assertion'], failmsg or ''):
            continue
        par = f.get('params') or {}
        if all(str(q.params.get(k)) == str(v) for k, v in par.items()):
            return f
    return None


# ---------------------------------------------------------------- counterexample extraction
def rational(tok):
    """parse a z3 Real model value (s-expression string) to float"""
    tok = tok.strip()
    try:
        import fp2alg
        t = fp2alg.parse(fp2alg.tokenize(tok))[0]
    except Exception:
        return None

    def ev(x):
        if isinstance(x, str):
            return fractions.Fraction(x.rstrip('?'))
        if x[0] == '-' and len(x) == 2:
            return -ev(x[1])
        if x[0] == '-':
            return ev(x[1]) - ev(x[2])
        if x[0] == '/':
            return ev(x[1]) / ev(x[2])
        if x[0] == '+':
            return sum(ev(y) for y in x[1:])
        if x[0] == '*':
            r = fractions.Fraction(1)
            for y in x[1:]:
                r *= ev(y)
            return r
        raise ValueError(x)
    try:
        return float(ev(t))
    except Exception:
        return None


def smt_model_inputs(vcfile, mode, prime, timeout=120):
    """ask z3 for the values of the harness inputs (k-th vh_double()/vh_int() call) in the sat model"""
    txt = open(vcfile).read()
    dsyms = sorted(set(re.findall(r'\|goto_symex::return_value::vh_double!0#(\d+)\|', txt)), key=int)
    isyms = sorted(set(re.findall(r'\|goto_symex::return_value::vh_int!0#(\d+)\|', txt)), key=int)
    q = txt.replace('(check-sat)', '')
    q = '(set-option :pp.decimal false)\n' + q + '(check-sat)\n'
    for k in dsyms:
        q += '(get-value (|goto_symex::return_value::vh_double!0#%s|))\n' % k
    for k in isyms:
        q += '(get-value (|goto_symex::return_value::vh_int!0#%s|))\n' % k
    f = vcfile + '.model.smt2'
    open(f, 'w').write(q)
    rc, o, e, dt = sh(['z3-new', f], timeout=timeout)
    os.unlink(f)
    if rc == 'timeout' or not o.startswith('sat'):
        return None
    vals = {'d': {}, 'i': {}}
    for m in re.finditer(r'\(\(\|goto_symex::return_value::vh_(double|int)!0#(\d+)\|\s+(.*?)\)\)\n', o, re.S):
        kind, k, v = m.group(1), int(m.group(2)), m.group(3)
        if kind == 'double':
            if mode == 'real':
                vals['d'][k] = rational(v)
            else:
                mm = re.match(r'#b([01]+)|#x([0-9a-f]+)', v)
                vals['d'][k] = float(int(mm.group(1), 2) if mm.group(1) else int(mm.group(2), 16)) if mm else None
        else:
            mm = re.match(r'#b([01]+)|#x([0-9a-fA-F]+)', v)
            if mm:
                u = int(mm.group(1), 2) if mm.group(1) else int(mm.group(2), 16)
                w = len(mm.group(1)) if mm.group(1) else 4 * len(mm.group(2))
                vals['i'][k] = u - (1 << w) if u >= (1 << (w - 1)) else u
    lines = []
    # call order is not recoverable across the two kinds from SSA numbers alone; harnesses that are
    # decided with the SMT engine draw their ints first or not at all, doubles unconditionally
    for k in range(1, max(list(vals['i']) + [0]) + 1):
        lines.append('i %d' % vals['i'].get(k, 0))
    for k in range(1, max(list(vals['d']) + [0]) + 1):
        v = vals['d'].get(k)     # inputs the slicer removed do not matter: any value
        lines.append('d %s' % (repr(v) if v is not None else '0.5'))
    return lines


def trace_inputs(trace):
    """inputs in call order from a cbmc --trace (json): assignments to vh_log_i / vh_log_d"""
    lines = []
    for st in trace or []:
        if st.get('stepType') != 'assignment':
            continue
        lhs = st.get('lhs', '')
        if st.get('hidden') or st.get('sourceLocation', {}).get('function') not in ('vh_int', 'vh_double'):
            continue
        if lhs == 'vh_log_i':
            v = st.get('value', {})
            lines.append('i %s' % v.get('data', '0'))
        elif lhs == 'vh_log_d':
            v = st.get('value', {})
            b = v.get('binary')
            if b and len(b) == 64:
                d = struct.unpack('>d', int(b, 2).to_bytes(8, 'big'))[0]
                lines.append('d %s' % d.hex())
            else:
                lines.append('d %s' % v.get('data', '0.0'))
    return lines


# ---------------------------------------------------------------- native replay
def native_build(q, outdir, tag):
    exe = os.path.join(outdir, tag + '.native')
    objs = []
    fl = vcore.NATIVE_FLAGS + q.cflags + ['-fsanitize=address,undefined', '-fno-sanitize-recover=undefined',
                                          '-fno-omit-frame-pointer']
    cmds = [['gcc', '-c'] + fl + vcore.defs_flags(q.defs) + [os.path.join(HARN, q.harness), '-o', exe + '.h.o'],
            ['gcc', '-c'] + fl + [os.path.join(HARN, 'vh_native.c'), '-o', exe + '.n.o']]
    objs = [exe + '.h.o', exe + '.n.o']
    for n, s in enumerate(q.native_srcs if q.native_srcs is not None else q.srcs):
        f, sf = (s, []) if isinstance(s, str) else s
        path = f if os.path.isabs(f) else os.path.join(SRC, f)
        if not os.path.exists(path):
            path = os.path.join(REPO, f)
        o = '%s.%d.o' % (exe, n)
        cmds.append(['gcc', '-c'] + fl + list(sf) + [path, '-o', o])
        objs.append(o)
    from concurrent.futures import ThreadPoolExecutor
    with ThreadPoolExecutor(8) as ex:
        rs = list(ex.map(lambda c: sh(c, timeout=300), cmds))
    for (rc, o, e, _), c in zip(rs, cmds):
        if rc != 0:
            return None, 'native compile failed: %s\n%s' % (' '.join(c[-3:]), e[-1500:])
    rc, o, e, _ = sh(['gcc'] + fl + objs + ['-o', exe, '-lm', '-lpthread', '-no-pie', '-Wl,--unresolved-symbols=ignore-all'], timeout=300)
    for ob in objs:
        if os.path.exists(ob):
            os.unlink(ob)
    if rc != 0:
        return None, 'native link failed: ' + e[-1500:]
    return exe, ''


def native_run(exe, q, lines, outdir, tag, random_seed=None):
    rp = os.path.join(outdir, tag + '.inputs')
    open(rp, 'w').write('\n'.join(lines) + '\n')
    env = dict(os.environ, VH_REPLAY=rp, ASAN_OPTIONS='detect_leaks=0:abort_on_error=0:exitcode=66',
               UBSAN_OPTIONS='halt_on_error=1:exitcode=67')
    if random_seed is not None:
        env['VH_RANDOM'] = str(random_seed)
    if 'VH_GETENV_NONNULL' in q.defs:
        env['SuperLU_DYNAMIC_SNODE_STORE'] = '1'
    else:
        env.pop('SuperLU_DYNAMIC_SNODE_STORE', None)
    t0 = time.time()
    try:
        p = subprocess.run([exe], env=env, capture_output=True, text=True, timeout=60)
        rc, out = p.returncode, p.stdout + p.stderr
    except subprocess.TimeoutExpired:
        rc, out = 'hang', 'native run did not terminate in 60 s'
    m = re.search(r'REPLAY-ASSERT-FAIL: (.*)', out)
    if m:
        return 'assert', m.group(1), out
    if rc == 'hang':
        return 'hang', out, out
    if rc in (66, 67) or 'AddressSanitizer' in out or 'runtime error' in out:
        mm = re.search(r'(AddressSanitizer: [^\n]*|runtime error: [^\n]*)', out)
        return 'sanitizer', mm.group(1) if mm else 'sanitizer report', out
    if isinstance(rc, int) and rc < 0:
        return 'signal', 'killed by signal %d' % -rc, out
    if rc == 3:
        return 'infeasible', out.strip()[-200:], out
    if rc == 4:
        return 'abort', out.strip()[-200:], out
    if rc != 0:
        return 'error', 'native run exit code %s: %s' % (rc, out.strip()[-200:]), out
    return 'ok', '', out


def confirm(runner, q, rec, outdir):
    """turn a failed query into a natively confirmed violation (or not).
    returns (confirmed: bool, message, replay_record)"""
    tag = re.sub(r'[^A-Za-z0-9_.-]', '_', q.name)
    lines, how = None, ''
    if q.engine == 'sat':
        gb = rec.get('_gb')
        r = runner.run_sat(q, gb, want_trace=True) if gb and os.path.exists(gb) else {}
        tr = None
        for name, t in (r.get('traces') or {}).items():
            tr = t
            break
        lines = trace_inputs(tr) if tr else []
        how = 'cbmc trace'
    else:
        vc = rec.get('vc')
        if vc and os.path.exists(vc):
            lines = smt_model_inputs(vc, q.mode, q.prime)
        how = 'z3 model (%s)' % rec.get('mode')
    exe, err = native_build(q, outdir, tag)
    rp = {'property': runner.pid, 'query': q.name, 'harness': q.harness, 'defs': q.defs, 'cflags': q.cflags,
          'srcs': [s if isinstance(s, str) else list(s) for s in q.srcs], 'engine': q.engine,
          'inputs': lines or [], 'inputs_from': how,
          'solver_failures': {k: list(v) for k, v in (rec.get('fails') or {}).items()}}
    if not exe:
        rp['native'] = err
        return False, err, rp
    trials = []
    if lines is not None:
        trials.append((lines, None))
    if q.engine == 'smt':
        # GF(p) models have no floating-point reading, and Real models may be irrational:
        # a broken polynomial identity fails for generic values, so also try seeded generic inputs
        ints = [l for l in (lines or []) if l.startswith('i ')]
        for s in range(1, 17):
            trials.append((ints, runner.seed * 1000 + s))
    verdict = (False, 'counterexample did not reproduce natively', rp)
    for ls, rs in trials:
        kind, msg, out = native_run(exe, q, ls, outdir, tag, rs)
        if kind in ('assert', 'sanitizer', 'signal', 'hang'):
            rp['inputs'] = ls
            rp['random_seed'] = rs
            rp['native'] = '%s: %s' % (kind, msg)
            verdict = (True, '%s: %s' % (kind, msg), rp)
            break
        rp.setdefault('native_attempts', []).append('%s %s' % (kind, msg[:80]))
    try:
        os.unlink(exe)
    except OSError:
        pass
    return verdict


# ---------------------------------------------------------------- main
def functions_encoded(gb):
    rc, o, e, _ = sh(['goto-instrument', '--drop-unused-functions', gb, gb + '.du'], timeout=120)
    rc, o, e, _ = sh(['goto-instrument', '--list-goto-functions', '--json-ui', gb + '.du'], timeout=120)
    names = []
    try:
        for ent in json.loads(o):
            for f in ent.get('functions', []):
                if f.get('isBodyAvailable') and not f.get('isInternal') and not f['name'].startswith('__'):
                    names.append(f['name'])
    except Exception:
        names = sorted(set(re.findall(r'^(\w+) /\*', o, re.M)))
    if os.path.exists(gb + '.du'):
        os.unlink(gb + '.du')
    return sorted(set(names))


def main():
    ap = argparse.ArgumentParser()
    ap.add_argument('pid')
    ap.add_argument('--tier', default=os.environ.get('VERIF_TIER', 'quick'))
    ap.add_argument('--replay')
    ap.add_argument('--only', help='regex on query names (debugging)')
    ap.add_argument('--list', action='store_true')
    a = ap.parse_args()
    seed = int(os.environ.get('VERIF_SEED', '1') or 1)
    pid = a.pid
    sys.path.insert(0, VERIF)
    mod = importlib.import_module('props.' + pid)
    t0 = time.time()
    os.chdir(VERIF)
    replay_dir = os.environ.get('VERIF_REPLAY_DIR', os.path.join(VERIF, 'replay'))
    os.makedirs(replay_dir, exist_ok=True)

    if a.replay:
        rp = json.load(open(a.replay))
        q = vcore.Query(rp['query'], rp['harness'], [s if isinstance(s, str) else (s[0], s[1]) for s in rp['srcs']],
                        defs=rp['defs'], cflags=rp.get('cflags'), engine=rp['engine'])
        exe, err = native_build(q, replay_dir, 'replay_' + pid)
        if not exe:
            print(err)
            sys.exit(2)
        kind, msg, out = native_run(exe, q, rp['inputs'], replay_dir, 'replay_' + pid, rp.get('random_seed'))
        print(out[-3000:])
        print('replay: %s %s' % (kind, msg))
        os.unlink(exe)
        sys.exit(1 if kind in ('assert', 'sanitizer', 'signal', 'hang') else 0)

    queries = mod.plan(a.tier, seed)
    _seen = set()      # a plan may generate the same query twice (same name = same harness and parameters): run it once
    queries = [q for q in queries if not (q.name in _seen or _seen.add(q.name))]
    if a.only:
        queries = [q for q in queries if re.search(a.only, q.name)]
    if a.list:
        for q in queries:
            print(q.name, q.harness, q.engine, q.params)
        return
    runner = vcore.Runner(pid, a.tier, seed)
    results = runner.run_all(queries)
    known = load_known(pid)

    violations, inconclusive, known_hits, unconfirmed = [], [], [], []
    passed = 0
    reached = 0
    failed = []
    for r in results:
        q = r['_q']
        if r['status'] == 'pass':
            if q.witness and r.get('witness') != 'reached':
                inconclusive.append((q.name, 'witness ' + str(r.get('witness'))))
            else:
                passed += 1
                reached += 1 if q.witness else 0
        elif r['status'] == 'inconclusive':
            inconclusive.append((q.name, r.get('why', '')))
        else:
            failed.append(r)
    # native confirmation of counterexamples: at most MAXC per run (in parallel); the rest are listed unreplayed
    MAXC = int(os.environ.get('VERIF_MAX_CONFIRM', '12'))
    from concurrent.futures import ThreadPoolExecutor
    todo = failed[:MAXC]
    with ThreadPoolExecutor(max(1, min(len(todo), vcore.NCPU // 2))) as ex:
        confs = list(ex.map(lambda r: confirm(runner, r['_q'], r, replay_dir), todo))
    for r, (ok, msg, rp) in zip(todo, confs):
        q = r['_q']
        fl = r.get('fails') or {}
        if fl:
            # per failing property: known finding or not (a known finding must not hide a new failure of the same query)
            kfs = [(match_known(known, q, v[1]), k, v) for k, v in fl.items()]
            unknown = {k: v for (kf_, k, v) in kfs if kf_ is None}
            for kf_ in set(id(x[0]) for x in kfs if x[0] is not None):
                kk = [x[0] for x in kfs if x[0] is not None and id(x[0]) == kf_][0]
                known_hits.append((kk, q.name, kk.get('assertion', '')))
            if not unknown:
                continue
            desc = '; '.join('%s %s' % (v[1], v[2]) for v in unknown.values())
            r['fails'] = unknown
        else:
            desc = ''
            kf = match_known(known, q, msg)
            if kf:
                known_hits.append((kf, q.name, msg))
                continue
        only_unwind = r.get('fails') and all('unwind' in k for k in r['fails'])
        tagn = re.sub(r'[^A-Za-z0-9_.-]', '_', q.name)
        if ok:
            path = os.path.join(replay_dir, '%s-%s.json' % (pid, tagn))
            json.dump(rp, open(path, 'w'), indent=1)
            violations.append((q.name, desc or msg, msg, os.path.relpath(path, VERIF)))
        elif only_unwind:
            inconclusive.append((q.name, 'unwinding bound exceeded: ' + desc[:200]))
        else:
            path = os.path.join(replay_dir, '%s-%s.unconfirmed.json' % (pid, tagn))
            json.dump(rp, open(path, 'w'), indent=1)
            unconfirmed.append((q.name, desc or 'solver counterexample', msg, os.path.relpath(path, VERIF)))
    for r in failed[MAXC:]:
        q = r['_q']
        desc = '; '.join('%s %s' % (v[1], v[2]) for v in (r.get('fails') or {}).values())
        kf = match_known(known, q, desc)
        if kf:
            known_hits.append((kf, q.name, desc))
        elif violations:
            violations.append((q.name, desc or 'solver counterexample', 'not replayed (cap of %d native confirmations per run reached)' % MAXC, violations[0][3]))
        else:
            unconfirmed.append((q.name, desc or 'solver counterexample', 'not replayed (cap reached)', ''))
    for r in results:
        for f in (r.get('_gb'), r.get('vc')):
            if f and os.path.exists(f):
                os.unlink(f)

    # functions actually encoded: taken from one representative binary per harness
    funcs = {}
    meta = getattr(mod, 'META', {})
    if getattr(mod, 'REPRESENTATIVE', None):
        for q in mod.REPRESENTATIVE(a.tier):
            try:
                gb = runner.link(q, False)
                funcs[q.harness] = [f for f in functions_encoded(gb)]
                os.unlink(gb)
            except Exception as ex:
                funcs[q.harness] = ['(could not list: %s)' % str(ex)[:100]]

    seen = set()
    for kf, qn, desc in known_hits:
        if kf['id'] not in seen:
            seen.add(kf['id'])
            print('KNOWN-FINDING: property=%s %s [%s] (reproduced by query %s)' % (pid, kf['what'], kf['id'], qn))
    for qn, desc, msg, path in violations:
        print('VIOLATION property=%s replay=%s' % (pid, path))
        print('  query %s: %s | native: %s' % (qn, desc[:300], msg[:300]))
    for qn, desc, msg, path in unconfirmed:
        print('UNCONFIRMED-COUNTEREXAMPLE property=%s query=%s record=%s : %s (%s)' % (pid, qn, path, desc[:200], msg[:120]))
    for qn, why in inconclusive[:40]:
        print('INCONCLUSIVE property=%s query=%s : %s' % (pid, qn, why[:300]))

    wall = time.time() - t0
    samples = []
    for r in results[:: max(1, len(results) // 6)][:8]:
        samples.append({'query': r['name'], 'harness': r['harness'], 'engine': r['engine'], 'mode': r.get('mode'),
                        'params': {k: str(v) for k, v in r['params'].items()}, 'verdict': r['status'],
                        'witness': r.get('witness'), 'seconds': round(r.get('wall', 0), 2)})
    ev = {
        'property_id': pid, 'tier': a.tier if a.tier in ('quick', 'thorough') else 'quick', 'seed': seed,
        'level': meta.get('level', 'model_checking'),
        'coverage': {
            'evaluations': len(results),
            'distinct_nontrivial': reached if reached else passed,
            'rule': meta.get('rule', 'one solver query per (harness, parameter tuple); a query is counted as '
                                     'non-trivial when its -DWITNESS twin (final assert(0)) is reported reachable '
                                     'by the solver; names are unique so every query is distinct'),
            'samples': samples,
            'obligations': len(results), 'discharged': passed,
            'inconclusive': len(inconclusive), 'unconfirmed_counterexamples': len(unconfirmed),
            'known_findings_reproduced': sorted(seen),
            'checker_cmd': './check %s --tier %s' % (pid, a.tier),
            'functions_encoded': funcs,
            'bounds': meta.get('bounds', {}),
            'outside_bounds': meta.get('outside', []),
            'queries_by_group': {},
            'solver_time_s': round(runner.solver_time, 1), 'symex_time_s': round(runner.symex_time, 1),
            'engines': meta.get('engines', ''),
            'exhaustive': bool(meta.get('exhaustive_' + a.tier, False)),
            'explanation': meta.get('explanation', ''),
            'trusted_base': meta.get('trusted_base', []),
        },
        'assumptions': meta.get('assumptions', []),
        'wall_s': round(wall, 1),
        'violations': len(violations),
    }
    for r in results:
        g = ev['coverage']['queries_by_group'].setdefault(r['_q'].group, {'n': 0, 'pass': 0, 'max_s': 0.0})
        g['n'] += 1
        g['pass'] += 1 if r['status'] == 'pass' else 0
        g['max_s'] = max(g['max_s'], round(r.get('wall', 0), 1))
    evdir = os.environ.get('VERIF_EVIDENCE_DIR', os.path.join(VERIF, 'evidence'))
    os.makedirs(evdir, exist_ok=True)
    json.dump(ev, open(os.path.join(evdir, pid + '.json'), 'w'), indent=1)
    print('%s tier=%s: %d queries, %d discharged, %d inconclusive, %d unconfirmed, %d violations, %d known findings; '
          'wall %.0fs (solver %.0fs)' % (pid, a.tier, len(results), passed, len(inconclusive), len(unconfirmed),
                                         len(violations), len(seen), wall, runner.solver_time))
    import shutil
    shutil.rmtree(runner.bdir, ignore_errors=True)
    if violations:
        sys.exit(1)
    if unconfirmed:
        # the solver found a counterexample in the encoding that did not reproduce natively:
        # the encoding or a stub is suspect -- not a pass, not a reportable violation
        sys.exit(2)
    if inconclusive:
        sys.exit(2)
    sys.exit(0)


if __name__ == '__main__':
    sys.setrecursionlimit(100000)
    main()
