#!/bin/bash
# usage: tools/trymut.sh <patch-or-sed-script> <PID> [extra check args]  -- run a check against a scratch copy of /repo with a change applied
# (development aid; registered checks always run against /repo itself)
set -e
P=$1; PID=$2; shift 2
W=/x/mrepo.$$
git -C /repo worktree add -q --detach $W HEAD
trap "git -C /repo worktree remove --force $W; rm -rf /x/vb.$$" EXIT
if [[ $P == *.diff || $P == *.patch ]]; then (git -C $W apply $P 2>/dev/null || git -C $W apply -C1 $P 2>/dev/null || git -C $W apply --3way $P); else (cd $W && bash $P); fi
git -C $W diff --stat | tail -1
cd /verif && VERIF_REPO=$W VERIF_BUILD=/x/vb.$$ VERIF_EVIDENCE_DIR=/x/vb.$$/ev VERIF_REPLAY_DIR=/x/vb.$$/replay ./check $PID "$@" 2>&1 | grep -v "^\[" | tail -${TAILN:-12}
echo "exit=${PIPESTATUS[0]}"
