#!/usr/bin/env python3
"""vcore -- query runner for the solver-based checks (DESIGN.md section 2).

A *query* is one solver question about the real code:
    harness (C, in /verif/harness) + real sources (from /repo/SRC, current working tree)
    --goto-cc-->  goto binary  --cbmc-->  verdict
engine 'sat' : cbmc decides bit-precisely with a SAT back end (integers, pointers, control)
engine 'smt' : cbmc --smt2 --fpa writes the VC, tools/fp2alg.py reinterprets floating point
               as Real / GF(p), z3 (5.1, `z3-new`) decides; cvc5 cross-checks on request.
Every query has a WITNESS twin (same harness with -DWITNESS: a final assert(0)) that must
come back violated, so that an unsatisfiable assumption cannot pass silently.

Nothing is cached between runs: the build directory is wiped and every goto binary is
regenerated from /repo's current sources.
"""
import json, os, re, shutil, subprocess, sys, time, hashlib, resource
from concurrent.futures import ThreadPoolExecutor, as_completed

VERIF = os.path.dirname(os.path.dirname(os.path.abspath(__file__)))
REPO = os.environ.get('VERIF_REPO', '/repo')
SRC = os.path.join(REPO, 'SRC')
HARN = os.path.join(VERIF, 'harness')
TOOLS = os.path.join(VERIF, 'tools')
GUARD = 'XIAOYELI_SUPERLU_MT_VERIF'
BASE_FLAGS = ['-DVH_CBMC', '-D__PTHREAD', '-DAdd_', '-D' + GUARD, '-I' + SRC, '-I' + HARN,
              '-DUSER_MALLOC(s)=malloc(s)', '-DUSER_FREE(p)=free(p)']
NATIVE_FLAGS = ['-D__PTHREAD', '-DAdd_', '-D' + GUARD, '-I' + SRC, '-I' + HARN, '-w', '-g', '-O0']
CBMC_SAT_FLAGS = ['--object-bits', '12', '--max-field-sensitivity-array-size', '4096', '--unwinding-assertions', '--pointer-overflow-check', '--signed-overflow-check',
                  '--undefined-shift-check', '--drop-unused-functions', '--no-malloc-may-fail']
CBMC_SMT_FLAGS = ['--object-bits', '12', '--max-field-sensitivity-array-size', '4096', '--unwinding-assertions', '--drop-unused-functions', '--no-malloc-may-fail',
                  '--no-standard-checks', '--slice-formula']
NCPU = int(os.environ.get('VERIF_JOBS', '0')) or min(os.cpu_count() or 4, 12)   # some queries need ~4 GB: 12 in parallel fit in 62 GB
# every function without a body gets "assert(false); assume(false)" -- except CPROVER intrinsics, nondet_* and the C library
# (cbmc adds its own models for those when it loads the binary)
NOBODY_RX = ('^(?!__CPROVER|nondet_|__VERIFIER|__builtin|__atomic|__assert|_IO_|malloc$|calloc$|realloc$|free$|alloca$|printf$|fprintf$|'
             'sprintf$|snprintf$|vprintf$|vfprintf$|puts$|putchar$|putc$|fputs$|fputc$|fflush$|perror$|exit$|_exit$|abort$|fabs$|fabsf$|fabsl$|'
             'sqrt$|sqrtf$|pow$|log$|log10$|exp$|floor$|ceil$|fmod$|fmax$|fmin$|mem|str|ato|fopen$|fclose$|fgets$|fgetc$|fread$|fwrite$|'
             'fscanf$|scanf$|sscanf$|getc$|getchar$|ungetc$|getenv$|pthread_|sysconf$|time$|clock$|times$|gettimeofday$|getrusage$|'
             'rand$|srand$|random$|srandom$|qsort$|is[a-z]+$|to(upper|lower)$|abs$|labs$|sleep$|usleep$|signal$|raise$).*$')


def _wrap(cmd, mem_gb):
    # memory cap through prlimit(1); preexec_fn is not safe in a multi-threaded parent (fork deadlocks)
    if mem_gb:
        return ['prlimit', '--as=%d' % int(mem_gb * (1 << 30))] + list(cmd)
    return list(cmd)


def sh(cmd, timeout=None, cwd=None, mem_gb=None, stdin=None):
    """run, return (rc, stdout, stderr, seconds); rc = 'timeout' on timeout"""
    t0 = time.time()
    try:
        p = subprocess.Popen(_wrap(cmd, mem_gb), stdout=subprocess.PIPE, stderr=subprocess.PIPE, cwd=cwd, text=True,
                             start_new_session=True,
                             stdin=subprocess.PIPE if stdin is not None else subprocess.DEVNULL)
        try:
            o, e = p.communicate(stdin, timeout=timeout)
        except subprocess.TimeoutExpired:
            try:
                os.killpg(p.pid, 9)
            except Exception:
                p.kill()
            p.communicate()
            return 'timeout', '', '', time.time() - t0
        return p.returncode, o, e, time.time() - t0
    except OSError as ex:
        return 'oserror', '', str(ex), time.time() - t0


class Query:
    """one solver question.  defs: dict of -D for the harness.  srcs: list of entries, each
    either 'file.c' (from /repo/SRC) or ('file.c', ['-Dx=y', ...]) for per-file renames."""

    def __init__(self, name, harness, srcs, defs=None, engine='sat', mode='real', prime=13,
                 unwind=8, unwindset=None, solver='minisat', timeout=120, flags=None, cflags=None,
                 witness=True, params=None, expect='pass', cross=False, extra_cbmc=None, group=None,
                 native_srcs=None, harness_dir=None):
        self.name = name
        self.harness = harness
        self.srcs = srcs
        self.defs = dict(defs or {})
        self.engine = engine
        self.mode = mode
        self.prime = prime
        self.unwind = unwind
        self.unwindset = dict(unwindset or {})
        self.solver = solver
        self.timeout = timeout
        self.cflags = list(cflags or [])     # extra flags for harness AND sources (e.g. -DUSE_VENDOR_BLAS)
        self.witness = witness
        self.params = params or dict(self.defs)
        self.expect = expect
        self.cross = cross
        self.extra_cbmc = list(extra_cbmc or [])
        self.group = group or harness
        self.native_srcs = native_srcs
        self.unwind_big = None
        self.instrument = None
        self.witness_defs = None


class Builder:
    """compiles the real sources to goto objects, once per (file, flags) per run"""

    def __init__(self, bdir):
        self.bdir = bdir
        self.cache = {}
        os.makedirs(bdir, exist_ok=True)

    def obj(self, src, flags):
        key = (src, tuple(flags))
        if key in self.cache:
            return self.cache[key]
        h = hashlib.sha1(repr(key).encode()).hexdigest()[:10]
        out = os.path.join(self.bdir, 'lib_%s_%s.gb' % (os.path.basename(src).replace('.c', ''), h))
        path = src if os.path.isabs(src) else os.path.join(SRC, src)
        if not os.path.exists(path) and os.path.exists(os.path.join(REPO, src)):
            path = os.path.join(REPO, src)
        rc, o, e, _ = sh(['goto-cc', '-c'] + BASE_FLAGS + list(flags) + [path, '-o', out], timeout=300)
        if rc != 0 or not os.path.exists(out):
            raise RuntimeError('goto-cc failed for %s: %s' % (src, (e or o)[-2000:]))
        self.cache[key] = out
        return out

    def prebuild(self, queries):
        todo = set()
        for q in queries:
            for s in q.srcs:
                f, fl = (s, []) if isinstance(s, str) else s
                todo.add((f, tuple(q.cflags + list(fl))))
        with ThreadPoolExecutor(NCPU) as ex:
            futs = [ex.submit(self.obj, f, list(fl)) for f, fl in todo]
            for fu in futs:
                fu.result()


def defs_flags(defs):
    out = []
    for k, v in defs.items():
        out.append('-D%s' % k if v is None or v is True else '-D%s=%s' % (k, v))
    return out


def parse_cbmc_json(text):
    """returns (props: {name: (status, desc, loc)}, traces: {name: trace}, status_text)"""
    props, traces = {}, {}
    try:
        data = json.loads(text)
    except Exception:
        return None, None, 'unparsable'
    prover = None
    errs = []
    for e in data:
        if 'result' in e:
            for p in e['result']:
                loc = p.get('sourceLocation', {})
                props[p['property']] = (p['status'], p.get('description', ''),
                                        '%s:%s' % (loc.get('file', ''), loc.get('line', '')))
                if 'trace' in p:
                    traces[p['property']] = p['trace']
        if 'cProverStatus' in e:
            prover = e['cProverStatus']
        if e.get('messageType') == 'ERROR':
            errs.append(e.get('messageText', ''))
    return props, traces, prover or ('error: ' + '; '.join(errs)[:300])


def split_vc(text):
    """split the rewritten VC into (head, [(property_symbol, instance_expr)])"""
    i = text.rindex('(assert (or ') if '(assert (or ' in text else -1
    if i < 0:
        m = list(re.finditer(r'\(assert (B\d+)\)\n', text))
        if not m:
            return None, []
        i = m[-1].start()
        return text[:i], [(m[-1].group(1), m[-1].group(1))]
    j = text.index('\n', i)
    bs = re.findall(r'B\d+', text[i:j])
    head = text[:i]
    defs = dict(re.findall(r'\(define-fun (B\d+) \(\) Bool (.*)\)\n', head))
    leaves = []
    for b in bs:
        d = defs.get(b, '')
        m = re.fullmatch(r'\(not \(and ((?:B\d+ ?)+)\)\)', d)
        if m:
            for c in m.group(1).split():
                leaves.append((b, '(not %s)' % c))
        else:
            leaves.append((b, b))
    return head, leaves


def _solver_cmd(path, solver):
    if solver == 'z3':
        return ['z3-new', path]
    if solver == 'z3old':
        return ['z3', path]
    if solver == 'cvc5':
        return [os.path.join(TOOLS, 'cvc5run.py'), path]
    if solver == 'cvc5old':
        return ['cvc5', path]
    if solver == 'z3nl':
        # z3 5.1 with equation solving before nlsat: decides the mostly-pinned larger shapes in a second
        # where the default strategy needs minutes; on anything that is not pure arithmetic after
        # simplification the tactic answers unknown/error, never a wrong verdict
        alt = path + '.nl.smt2'
        if not os.path.exists(alt):
            open(alt, 'w').write(open(path).read().replace('(check-sat)', '(check-sat-using (then simplify propagate-values solve-eqs elim-uncnstr simplify propagate-values qfnra-nlsat))'))
        return ['z3-new', alt]
    raise ValueError(solver)


def _classify(o, e):
    txt = (o or '') + (e or '')
    if '(error' in txt:
        return 'error: ' + txt.strip()[:300]
    first = (o or '').strip().split('\n')[0] if o else ''
    if first in ('sat', 'unsat', 'unknown'):
        return first
    return 'error: ' + txt.strip()[:300]


def run_solver(path, solver, timeout, mem_gb=8):
    """solver 'portfolio' = z3 5.1, z3 4.8.12 and cvc5 1.0 side by side (their strengths differ wildly on the
    non-linear queries); the first definite answer (sat/unsat) wins, the other process is killed.
    If both answer they must agree, otherwise the result is an error (inconclusive)."""
    if solver != 'portfolio':
        rc, o, e, dt = sh(_solver_cmd(path, solver), timeout=timeout, mem_gb=mem_gb)
        if rc == 'timeout':
            return 'timeout', dt
        return _classify(o, e), dt
    t0 = time.time()

    procs = {}
    for sv in ('z3', 'z3old', 'cvc5old', 'z3nl'):
        procs[sv] = subprocess.Popen(_wrap(_solver_cmd(path, sv), mem_gb), stdout=subprocess.PIPE, stderr=subprocess.PIPE, text=True,
                                     start_new_session=True, stdin=subprocess.DEVNULL)
    answers = {}
    while procs and time.time() - t0 < timeout:
        for sv, p in list(procs.items()):
            if p.poll() is not None:
                o, e = p.communicate()
                answers[sv] = _classify(o, e)
                del procs[sv]
        if any(a in ('sat', 'unsat') for a in answers.values()):
            break
        time.sleep(0.02)
    for p in procs.values():
        try:
            os.killpg(p.pid, 9)
        except Exception:
            p.kill()
        p.communicate()
    dt = time.time() - t0
    if os.path.exists(path + '.nl.smt2'):
        try:
            os.unlink(path + '.nl.smt2')
        except OSError:
            pass
    definite = set(a for a in answers.values() if a in ('sat', 'unsat'))
    if len(definite) == 2:   # both 'sat' and 'unsat' were reported
        return 'error: solvers disagree ' + str(answers), dt
    if definite:
        return definite.pop(), dt
    if not answers:
        return 'timeout', dt
    return list(answers.values())[0] if procs == {} and len(answers) == 4 else 'timeout', dt


class Runner:
    def __init__(self, pid, tier, seed):
        self.pid, self.tier, self.seed = pid, tier, seed
        self.bdir = os.path.join(os.environ.get('VERIF_BUILD', os.path.join(VERIF, 'build')), pid)
        shutil.rmtree(self.bdir, ignore_errors=True)
        os.makedirs(self.bdir, exist_ok=True)
        self.builder = Builder(self.bdir)
        self.solver_time = 0.0
        self.symex_time = 0.0

    # ---- build one goto binary
    def link(self, q, witness):
        tag = re.sub(r'[^A-Za-z0-9_.-]', '_', q.name) + ('.wit' if witness else '')
        hobj = os.path.join(self.bdir, tag + '.h.gb')
        out = os.path.join(self.bdir, tag + '.gb')
        d = dict(q.defs)
        if witness and getattr(q, 'witness_defs', None):
            d.update(q.witness_defs)     # e.g. pin every value: reachability of the end needs only one satisfying assignment
        fl = BASE_FLAGS + q.cflags + defs_flags(d) + (['-DWITNESS'] if witness else [])
        hd = os.path.join(HARN, q.harness)
        rc, o, e, _ = sh(['goto-cc', '-c'] + fl + [hd, '-o', hobj], timeout=300)
        if rc != 0:
            raise RuntimeError('goto-cc harness %s: %s' % (q.harness, (e or o)[-3000:]))
        objs = []
        for s in q.srcs:
            f, sf = (s, []) if isinstance(s, str) else s
            objs.append(self.builder.obj(f, q.cflags + list(sf)))
        rc, o, e, _ = sh(['goto-cc', hobj] + objs + ['-o', out], timeout=300)
        if rc != 0:
            raise RuntimeError('goto-cc link %s: %s' % (q.name, (e or o)[-3000:]))
        os.unlink(hobj)
        # a function without a body would silently become "returns anything, does nothing" (with --no-standard-checks
        # cbmc does not even flag it): add the C library models first, then give every remaining body-less function
        # the body assert(false); assume(false) so that reaching one fails the query (C library functions keep cbmc's models)
        rc, o, e, _ = sh(['goto-instrument', '--generate-function-body', NOBODY_RX,
                          '--generate-function-body-options', 'assert-false-assume-false', out, out + '.b'], timeout=300)
        if rc != 0 or not os.path.exists(out + '.b'):
            raise RuntimeError('goto-instrument generate-function-body %s: %s' % (q.name, (e or o)[-1500:]))
        os.replace(out + '.b', out)
        ins = getattr(q, 'instrument', None)
        if ins:
            # e.g. --nondet-static-matching <regex>: start from arbitrary values of the library's own static state
            rc, o, e, _ = sh(['goto-instrument'] + list(ins) + [out, out + '.i'], timeout=300)
            if rc != 0 or not os.path.exists(out + '.i'):
                raise RuntimeError('goto-instrument %s: %s' % (q.name, (e or o)[-1500:]))
            os.replace(out + '.i', out)
        return out

    def unwind_args(self, q):
        a = ['--unwind', str(q.unwind)]
        if q.unwindset:
            a += ['--unwindset', ','.join('%s:%d' % kv for kv in q.unwindset.items())]
        return a

    # ---- engines
    def run_sat(self, q, gb, want_trace=False):
        """bit-precise run; loops whose unwinding assertion fails get their bound raised to
        q.unwind_big (only those loops: a large global bound explodes the value-dependent loops)
        and the query is repeated, at most 6 times.  A loop that still exceeds unwind_big is
        reported as a failed unwinding assertion (possible non-termination)."""
        big = getattr(q, 'unwind_big', None) or (4 * q.unwind + 8)
        for rnd in range(7):
            r = self.run_sat_once(q, gb, want_trace)
            if r['status'] != 'fail':
                break
            uw = [k for k in r['fails'] if '.unwind.' in k]
            if not uw:
                break
            grew = False
            for k in uw:
                m = re.match(r'(.*)\.unwind\.(\d+)$', k)
                key = '%s.%s' % (m.group(1), m.group(2))
                if q.unwindset.get(key, 0) < big:
                    q.unwindset[key] = big
                    grew = True
            if not grew:
                break
        r['unwindset'] = dict(q.unwindset)
        return r

    def run_sat_once(self, q, gb, want_trace=False):
        flags = [f for f in CBMC_SAT_FLAGS if not (getattr(q, 'no_ptr_overflow', False) and f == '--pointer-overflow-check')]
        cmd = ['cbmc', gb] + flags + self.unwind_args(q) + q.extra_cbmc + ['--json-ui']
        if q.solver == 'cadical':
            cmd += ['--sat-solver', 'cadical']
        elif q.solver == 'kissat':
            cmd += ['--external-sat-solver', 'kissat']
        if want_trace:
            cmd += ['--trace']
        rc, o, e, dt = sh(cmd, timeout=q.timeout, mem_gb=12)
        self.solver_time += dt
        if rc == 'timeout':
            return {'status': 'inconclusive', 'why': 'timeout %ds' % q.timeout, 'time': dt}
        props, traces, st = parse_cbmc_json(o)
        if props is None or (not props and st != 'success'):
            return {'status': 'inconclusive', 'why': 'cbmc: %s %s' % (st, (e or '')[-300:]), 'time': dt}
        fails = {k: v for k, v in props.items() if v[0] == 'FAILURE'}
        unknown = {k: v for k, v in props.items() if v[0] not in ('SUCCESS', 'FAILURE')}
        if not fails and unknown:
            return {'status': 'inconclusive', 'why': 'cbmc left %d properties undecided (%s)' % (len(unknown), list(unknown.values())[0][0]), 'time': dt}
        return {'status': 'pass' if not fails else 'fail', 'nprops': len(props), 'fails': fails,
                'traces': traces, 'time': dt}

    def run_smt(self, q, gb, solver='portfolio', split_on_fail=True):
        vc = gb[:-3] + '.smt2'
        cmd = ['cbmc', gb] + CBMC_SMT_FLAGS + self.unwind_args(q) + q.extra_cbmc + \
              ['--smt2', '--fpa', '--outfile', vc]
        rc, o, e, dt = sh(cmd, timeout=q.timeout, mem_gb=12)
        self.symex_time += dt
        if rc == 'timeout':
            return {'status': 'inconclusive', 'why': 'symex timeout', 'time': dt}
        if not os.path.exists(vc):
            if 'VERIFICATION SUCCESSFUL' in o:   # everything simplified away during symex
                return {'status': 'pass', 'nprops': 0, 'time': dt, 'trivial': True}
            return {'status': 'inconclusive', 'why': 'no VC: ' + (o + e)[-400:], 'time': dt}
        raw = open(vc).read()
        if '(check-sat' not in raw:
            # symex decided everything by simplification; cbmc says which way
            os.unlink(vc)
            if 'VERIFICATION SUCCESSFUL' in o:
                return {'status': 'pass', 'nprops': 0, 'time': dt, 'trivial': True}
            if 'VERIFICATION FAILED' in o:
                return {'status': 'fail', 'time': dt, 'trivial': True}
            # cbmc 6.11 stops silently after the SMT header when no verification condition is left after
            # simplification; ask it again without --smt2 for the explicit verdict (cheap: nothing to solve)
            cmd2 = ['cbmc', gb] + CBMC_SMT_FLAGS + self.unwind_args(q) + q.extra_cbmc
            rc2, o2, e2, dt2 = sh(cmd2, timeout=q.timeout, mem_gb=12)
            if rc2 != 'timeout' and 'VERIFICATION SUCCESSFUL' in o2:
                return {'status': 'pass', 'nprops': 0, 'time': dt + dt2, 'trivial': True}
            if rc2 != 'timeout' and 'VERIFICATION FAILED' in o2:
                return {'status': 'fail', 'time': dt + dt2, 'trivial': True}
            return {'status': 'inconclusive', 'why': 'empty VC and no verdict: ' + (o + e)[-300:], 'time': dt}
        sys.path.insert(0, TOOLS)
        import fp2alg
        try:
            rw = fp2alg.Rewriter(q.mode, q.prime)
            txt, info = rw.rewrite(open(vc).read())
        except fp2alg.Unsupported as ex:
            return {'status': 'inconclusive', 'why': 'fp2alg: %s' % ex, 'time': dt}
        finally:
            os.unlink(vc)
        out = gb[:-3] + '.%s.smt2' % info['mode']
        open(out, 'w').write(txt)
        r, st = run_solver(out, solver, q.timeout)
        self.solver_time += st
        res = {'time': dt + st, 'solver_s': st, 'fp': {k: v for k, v in info.items() if k != 'havoc'},
               'havoc': info['havoc'][:20], 'vc': out}
        if r == 'unsat':
            res['status'] = 'pass'
            if q.cross:
                r2, st2 = run_solver(out, 'cvc5old' if q.mode != 'real' else 'cvc5', q.timeout)
                self.solver_time += st2
                res['cross'] = r2
                if r2 == 'sat' or r2.startswith('error'):
                    res['status'] = 'inconclusive'
                    res['why'] = 'solvers disagree: z3 unsat, cvc5 %s' % r2
            os.unlink(out)
        elif r == 'sat':
            res['status'] = 'fail'
        else:
            res['status'] = 'inconclusive'
            res['why'] = 'solver: %s' % r
            if r == 'timeout' and split_on_fail:
                # retry one property instance at a time (each is a much smaller question)
                head, leaves = split_vc(txt)
                if head and len(leaves) > 1:
                    bad, unk = [], []
                    for b, ex in leaves:
                        qf = out + '.part'
                        open(qf, 'w').write(head + '(assert %s)\n(check-sat)\n' % ex)
                        r1, st1 = run_solver(qf, solver, max(20, q.timeout // 4))
                        self.solver_time += st1
                        if r1 == 'sat':
                            bad.append(ex)
                        elif r1 != 'unsat':
                            unk.append((ex, r1))
                    if bad:
                        res['status'] = 'fail'
                    elif not unk:
                        res['status'] = 'pass'
                        res['split'] = len(leaves)
                        res.pop('why', None)
                    else:
                        res['why'] = 'split: %d instances undecided' % len(unk)
        return res

    # ---- a query with its witness twin
    def run_query(self, q):
        t0 = time.time()
        rec = {'name': q.name, 'harness': q.harness, 'engine': q.engine, 'params': q.params,
               'mode': (q.mode + (str(q.prime) if q.mode != 'real' else '')) if q.engine == 'smt' else q.solver}
        try:
            gb = self.link(q, False)
            r = self.run_smt(q, gb, split_on_fail=not getattr(q, 'nosplit', False)) if q.engine == 'smt' else self.run_sat(q, gb)
            rec.update({k: v for k, v in r.items() if k != 'traces'})
            rec['_traces'] = r.get('traces')
            rec['_gb'] = gb
            if r['status'] == 'pass' and q.witness:
                gw = self.link(q, True)
                w = self.run_smt(q, gw, split_on_fail=False) if q.engine == 'smt' else self.run_sat(q, gw)
                if w['status'] == 'fail':
                    if q.engine == 'sat':
                        others = [k for k, v in w['fails'].items() if 'WITNESS' not in v[1]]
                        rec['witness'] = 'reached' if not others else 'other-failures'
                    else:
                        rec['witness'] = 'reached'
                elif w['status'] == 'pass':
                    rec['witness'] = 'UNREACHABLE'
                else:
                    rec['witness'] = 'inconclusive: ' + w.get('why', '')
                for f in (gw, w.get('vc')):
                    if f and os.path.exists(f):
                        os.unlink(f)
            if r['status'] == 'pass' and os.path.exists(gb):
                os.unlink(gb)
        except RuntimeError as ex:
            rec['status'] = 'inconclusive'
            rec['why'] = 'build: ' + str(ex)[-1500:]
        rec['wall'] = time.time() - t0
        return rec

    def run_all(self, queries, progress=True):
        self.builder.prebuild(queries)
        results = []
        t0 = time.time()
        with ThreadPoolExecutor(NCPU) as ex:
            futs = {ex.submit(self.run_query, q): q for q in queries}
            for n, fu in enumerate(as_completed(futs), 1):
                r = fu.result()
                r['_q'] = futs[fu]
                results.append(r)
                if progress and (r['status'] != 'pass' or n % 50 == 0 or n == len(queries)):
                    sys.stderr.write('[%s %d/%d %.0fs] %s: %s %s\n' % (
                        self.pid, n, len(queries), time.time() - t0, r['name'], r['status'],
                        r.get('why', '') or r.get('witness', '')))
        results.sort(key=lambda r: r['name'])
        return results
