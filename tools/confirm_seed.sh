#!/bin/bash
# usage: tools/confirm_seed.sh <name> <patch.diff> <demo dir containing run.sh>
# Confirms a seeded change in scratch worktrees: builds, runs the 48 tests, runs the demonstration
# against the changed tree (must fail) and the unchanged tree (must pass).  Prints a summary line.
NAME=$1; PATCH=$2; DEMO=$3
W=/tmp/seedchk/$NAME
rm -rf $W; mkdir -p /tmp/seedchk
git -C /repo worktree add -q --detach $W.mut HEAD
git -C /repo worktree add -q --detach $W.orig HEAD
trap "git -C /repo worktree remove --force $W.mut; git -C /repo worktree remove --force $W.orig" EXIT
(git -C $W.mut apply $PATCH 2>/dev/null || git -C $W.mut apply -C1 $PATCH) || { echo "$NAME: PATCH DOES NOT APPLY"; exit 1; }
CM="-DCMAKE_BUILD_TYPE=RelWithDebInfo -DPLAT=_PTHREAD -DTPL_BLAS_LIBRARIES=/usr/lib/x86_64-linux-gnu/libopenblas.so -Denable_internal_blaslib=OFF -Denable_examples=ON -Denable_tests=ON"
for t in mut orig; do cmake -G Ninja -S $W.$t -B $W.$t/_build $CM > /dev/null 2>&1 && cmake --build $W.$t/_build > $W.$t.build.log 2>&1 || { echo "$NAME: BUILD FAILED ($t)"; exit 1; }; done
T=$(ctest --test-dir $W.mut/_build -j8 --timeout 900 2>&1 | grep "tests passed" )
(cd $DEMO && timeout 900 bash ./run.sh $W.mut > $W.demo_mut.log 2>&1); RM=$?
(cd $DEMO && timeout 900 bash ./run.sh $W.orig > $W.demo_orig.log 2>&1); RO=$?
echo "$NAME: tests[$T] demo_on_changed_exit=$RM demo_on_unchanged_exit=$RO"
