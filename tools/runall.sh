#!/bin/bash
# usage: tools/runall.sh [tier] [ids...]  -- run checks one after the other, log exit codes and wall time
TIER=${1:-quick}; shift
IDS=${@:-$(python3 -c "import json;print(' '.join(c['property_id'] for c in json.load(open('/verif/MANIFEST.json'))['checks']))")}
mkdir -p /x/runall
for id in $IDS; do
  t0=$(date +%s)
  ./check $id --tier $TIER > /x/runall/$id.$TIER.log 2>&1; rc=$?
  echo "$id tier=$TIER exit=$rc wall=$(( $(date +%s) - t0 ))s $(tail -1 /x/runall/$id.$TIER.log | cut -c1-160)"
done
