#!/usr/bin/env python3
"""fp2alg -- rewrite the verification condition that `cbmc --smt2 --fpa --outfile` writes
so that the SMT-LIB FloatingPoint sort is reinterpreted as

  real   : the ordered field of reals          (sort Real; + - * /; < <= =; abs)
  gf P   : the finite field GF(P), P prime     (ceil(log2 P)-bit vectors; modular + - *;
           a/b = a*finv(b) with  b != 0 => b*finv(b) = 1  asserted per division site;
           x == y exact;  order comparisons use the order of the representatives,
           in which 0 is least;  |x| = x)

Everything that is not floating point (bit-vectors, arrays, pointers, booleans) is left
exactly as CBMC produced it.  Anything the rewriter does not understand raises
Unsupported, which the driver reports as INCONCLUSIVE -- never as a pass.

Known CBMC 6.11 quirk handled here: float members of structs that the SMT back end
flattens to bit-vectors come out as ill-sorted definitions
   (define-fun |x..fcops| () (_ FloatingPoint 8 24) ((_ extract 63 32) bv))
Those members are statistics counters (Gstat_t / procstat_t); they are turned into
unconstrained ("havoc") field elements and listed in info['havoc'].
"""
import sys
from fractions import Fraction


class Unsupported(Exception):
    pass


def tokenize(s):
    toks = []
    i, n = 0, len(s)
    while i < n:
        c = s[i]
        if c in ' \t\r\n':
            i += 1
        elif c == ';':
            while i < n and s[i] != '\n':
                i += 1
        elif c in '()':
            toks.append(c)
            i += 1
        elif c == '|':
            j = s.index('|', i + 1)
            toks.append(s[i:j + 1])
            i = j + 1
        elif c == '"':
            j = s.index('"', i + 1)
            toks.append(s[i:j + 1])
            i = j + 1
        else:
            j = i
            while j < n and s[j] not in ' \t\r\n()':
                j += 1
            toks.append(s[i:j])
            i = j
    return toks


def parse(toks):
    stack = [[]]
    for t in toks:
        if t == '(':
            stack.append([])
        elif t == ')':
            x = stack.pop()
            stack[-1].append(x)
        else:
            stack[-1].append(t)
    if len(stack) != 1:
        raise Unsupported('unbalanced parentheses')
    return stack[0]


def out(x):
    if isinstance(x, str):
        return x
    # iterative to avoid recursion limits on deep terms
    parts = []
    stack = [x]
    while stack:
        y = stack.pop()
        if isinstance(y, str):
            parts.append(y)
        else:
            stack.append(')')
            for z in reversed(y):
                stack.append(z)
            stack.append('(')
    res = []
    prev = ''
    for p in parts:
        if res and p != ')' and prev != '(':
            res.append(' ')
        res.append(p)
        prev = p
    return ''.join(res)


RM = {'roundNearestTiesToEven', 'RNE', 'roundTowardZero', 'RTZ', 'roundTowardNegative', 'RTN',
      'roundTowardPositive', 'RTP', 'roundNearestTiesToAway', 'RNA'}
FP_ARITH = ('fp.add', 'fp.sub', 'fp.mul', 'fp.div')
FP_CMP = ('fp.eq', 'fp.leq', 'fp.lt', 'fp.geq', 'fp.gt')
FP_RET_FP = set(FP_ARITH) | {'fp.abs', 'fp.neg', 'fp', 'fp.roundToIntegral', 'fp.min', 'fp.max'}


def is_fpsort(x):
    return isinstance(x, list) and len(x) == 4 and x[0] == '_' and x[1] == 'FloatingPoint'


def is_fparray(x):
    return isinstance(x, list) and len(x) == 3 and x[0] == 'Array' and (is_fpsort(x[2]) or is_fparray(x[2]))


def is_fplit(y):
    return isinstance(y, list) and len(y) == 4 and y[0] == 'fp' and all(isinstance(z, str) for z in y)


def litval(sign, exp, man):
    def bits(t):
        if t.startswith('#b'):
            return t[2:]
        if t.startswith('#x'):
            return bin(int(t[2:], 16))[2:].zfill(4 * (len(t) - 2))
        raise Unsupported('literal ' + t)
    sb, ebits, mbits = bits(sign), bits(exp), bits(man)
    s, e, m = int(sb, 2), int(ebits, 2), int(mbits, 2)
    eb, mb = len(ebits), len(mbits)
    bias = (1 << (eb - 1)) - 1
    if e == (1 << eb) - 1:
        raise Unsupported('inf/nan literal')
    if e == 0:
        v = Fraction(m, 1 << mb) * Fraction(2) ** (1 - bias)
    else:
        v = (1 + Fraction(m, 1 << mb)) * Fraction(2) ** (e - bias)
    return -v if s else v


class Rewriter:
    def __init__(self, mode='real', prime=13):
        self.mode = mode
        self.P = prime
        self.W = prime.bit_length()
        self.W2 = 2 * self.W
        self.fpsyms = {}
        self.fresh = []
        self.havoc = []
        self.divsites = []
        self.ranksites = []
        self.stats = {'fp_ops': 0, 'divs': 0, 'cmps': 0, 'havoc_syms': 0, 'reinterp': 0}

    # ---- field primitives
    def elem_sort(self):
        if self.mode == 'real':
            return 'Real'
        if self.mode == 'ff':
            return ['_', 'FiniteField', str(self.P)]
        return ['_', 'BitVec', str(self.W)]

    def const(self, v):
        if self.mode == 'real':
            if v.denominator == 1:
                r = '%d.0' % abs(v.numerator)
            else:
                r = ['/', '%d.0' % abs(v.numerator), '%d.0' % v.denominator]
            return ['-', r] if v < 0 else r
        if v.denominator % self.P == 0:
            raise Unsupported('literal with denominator divisible by p')
        k = (v.numerator * pow(v.denominator, -1, self.P)) % self.P
        if self.mode == 'ff':
            return ['as', 'ff%d' % k, ['_', 'FiniteField', str(self.P)]]
        return ['_', 'bv%d' % k, str(self.W)]

    def zx(self, a):
        return [['_', 'zero_extend', str(self.W)], a]

    def red(self, a):
        return [['_', 'extract', str(self.W - 1), '0'], ['bvurem', a, ['_', 'bv%d' % self.P, str(self.W2)]]]

    def binop(self, h, a, b):
        self.stats['fp_ops'] += 1
        if self.mode == 'real':
            return [{'fp.add': '+', 'fp.sub': '-', 'fp.mul': '*', 'fp.div': '/'}[h], a, b]
        if self.mode == 'ff':
            if h == 'fp.add':
                return ['ff.add', a, b]
            if h == 'fp.sub':
                return ['ff.add', a, ['ff.neg', b]]
            if h == 'fp.mul':
                return ['ff.mul', a, b]
            self.stats['divs'] += 1
            self.divsites.append(b)
            return ['ff.mul', a, ['finv', b]]
        Pc = ['_', 'bv%d' % self.P, str(self.W2)]
        if h == 'fp.add':
            return self.red(['bvadd', self.zx(a), self.zx(b)])
        if h == 'fp.sub':
            return self.red(['bvsub', ['bvadd', self.zx(a), Pc], self.zx(b)])
        if h == 'fp.mul':
            return self.red(['bvmul', self.zx(a), self.zx(b)])
        if h == 'fp.div':
            self.stats['divs'] += 1
            self.divsites.append(b)
            return self.red(['bvmul', self.zx(a), self.zx(['finv', b])])
        raise Unsupported(h)

    def cmpop(self, h, a, b):
        self.stats['cmps'] += 1
        if self.mode == 'real':
            return [{'fp.eq': '=', 'fp.leq': '<=', 'fp.lt': '<', 'fp.geq': '>=', 'fp.gt': '>'}[h], a, b]
        if self.mode == 'ff':
            if h == 'fp.eq':
                return ['=', a, b]
            self.ranksites.append(a)
            self.ranksites.append(b)
            return [{'fp.leq': 'bvule', 'fp.lt': 'bvult', 'fp.geq': 'bvuge', 'fp.gt': 'bvugt'}[h], ['rank', a], ['rank', b]]
        return [{'fp.eq': '=', 'fp.leq': 'bvule', 'fp.lt': 'bvult', 'fp.geq': 'bvuge', 'fp.gt': 'bvugt'}[h], a, b]

    def new_havoc(self, why):
        nm = 'havoc_%d' % len(self.fresh)
        self.fresh.append('(declare-fun %s () %s)' % (nm, out(self.elem_sort())))
        if self.mode == 'gf':
            self.fresh.append('(assert (bvult %s (_ bv%d %d)))' % (nm, self.P, self.W))
        self.havoc.append(why)
        return nm

    # ---- does an (original) expression denote a floating-point value?
    def is_fp_expr(self, x):
        if isinstance(x, str):
            return x in self.fpsyms
        if not x:
            return False
        h = x[0]
        if isinstance(h, str):
            if h in FP_RET_FP:
                return True
            if h == 'ite':
                return self.is_fp_expr(x[2])
            if h == 'let':
                return self.is_fp_expr(x[-1])
            if h == 'select':
                return self.is_fparr_expr(x[1])
            if h == '_' and len(x) >= 2 and x[1] in ('+zero', '-zero'):
                return True
            return False
        if isinstance(h, list) and h[:2] == ['_', 'to_fp']:
            return True
        return False

    def is_fparr_expr(self, x):
        if isinstance(x, str):
            return x in self.fparrs
        if x and x[0] in ('store', 'ite'):
            return self.is_fparr_expr(x[1] if x[0] == 'store' else x[2])
        return False

    def int_to_field(self, w, arg, signed=True):
        """value of a w-bit integer as a field element"""
        if self.mode == 'real':
            if signed:
                return ['to_real', ['ite', ['bvslt', arg, ['_', 'bv0', str(w)]],
                                    ['-', ['bv2nat', arg], str(1 << w)], ['bv2nat', arg]]]
            return ['to_real', ['bv2nat', arg]]
        if self.mode == 'ff':
            k = self.bvconst(arg, w, signed)
            if k is None:
                return ['i2f%d' % w, arg]
            return self.const(Fraction(k))
        if w < self.W + 1:
            raise Unsupported('tiny integer width')
        pw = ['_', 'bv%d' % self.P, str(w)]
        op = 'bvsmod' if signed else 'bvurem'
        return [['_', 'extract', str(self.W - 1), '0'], [op, arg, pw]]

    def bvconst(self, x, w, signed):
        v = None
        if isinstance(x, str) and x.startswith('#b'):
            v = int(x[2:], 2)
        elif isinstance(x, str) and x.startswith('#x'):
            v = int(x[2:], 16)
        elif isinstance(x, list) and len(x) == 3 and x[0] == '_' and x[1].startswith('bv'):
            v = int(x[1][2:])
        if v is not None and signed and v >= (1 << (w - 1)):
            v -= 1 << w
        return v

    def bvwidth(self, x):
        """width of a bit-vector term, where we can tell"""
        if isinstance(x, str):
            if x in self.bvsyms:
                return self.bvsyms[x]
            if x.startswith('#b'):
                return len(x) - 2
            if x.startswith('#x'):
                return 4 * (len(x) - 2)
            return None
        if x and x[0] == '_' and len(x) == 3 and x[1].startswith('bv'):
            return int(x[2])
        if x and isinstance(x[0], list) and x[0][:2] == ['_', 'extract']:
            return int(x[0][2]) - int(x[0][3]) + 1
        if x and isinstance(x[0], list) and x[0][:2] in (['_', 'sign_extend'], ['_', 'zero_extend']):
            w = self.bvwidth(x[1])
            return None if w is None else w + int(x[0][2])
        if x and x[0] in ('bvadd', 'bvsub', 'bvmul', 'bvneg', 'bvand', 'bvor', 'bvxor', 'bvnot', 'bvshl',
                          'bvlshr', 'bvashr', 'bvudiv', 'bvurem', 'bvsdiv', 'bvsrem', 'bvsmod'):
            return self.bvwidth(x[1])
        if x and x[0] == 'ite':
            return self.bvwidth(x[2]) or self.bvwidth(x[3])
        if x and x[0] == 'concat':
            ws = [self.bvwidth(y) for y in x[1:]]
            return None if None in ws else sum(ws)
        if x and x[0] == 'select':
            a = x[1]
            if isinstance(a, str) and a in self.arrsyms:
                return self.arrsyms[a]
        return None

    def rw(self, x):
        if isinstance(x, str):
            return x
        if is_fpsort(x):
            return self.elem_sort()
        if is_fplit(x):
            return self.const(litval(x[1], x[2], x[3]))
        if not x:
            return x
        h = x[0]
        if isinstance(h, str):
            if h == '_' and len(x) == 4 and x[1] in ('+zero', '-zero'):
                return self.const(Fraction(0))
            if h == '_' and len(x) == 4 and x[1] in ('+oo', '-oo', 'NaN'):
                raise Unsupported('infinity / NaN literal')
            if h == 'concat':
                # a struct with float members being flattened: the float's bits are not
                # represented in the field, so they become unconstrained bits
                def cv(y):
                    if is_fplit(y):
                        return ['concat', y[1], ['concat', y[2], y[3]]]
                    if self.is_fp_expr(y):
                        e, m = self.fpsyms.get(y, (None, None)) if isinstance(y, str) else (None, None)
                        if e is None:
                            raise Unsupported('concat of a computed float')
                        nm = 'havocbits_%d' % len(self.fresh)
                        self.fresh.append('(declare-fun %s () (_ BitVec %d))' % (nm, e + m))
                        self.havoc.append('bits of ' + y + ' stored into a flattened struct')
                        return nm
                    return self.rw(y)
                return ['concat'] + [cv(y) for y in x[1:]]
            if h in FP_ARITH:
                if x[1] not in RM:
                    raise Unsupported('rounding mode ' + str(x[1]))
                return self.binop(h, self.rw(x[2]), self.rw(x[3]))
            if h in FP_CMP:
                return self.cmpop(h, self.rw(x[1]), self.rw(x[2]))
            if h == 'fp.abs':
                return ['absR', self.rw(x[1])] if self.mode == 'real' else self.rw(x[1])
            if h == 'fp.neg':
                if self.mode == 'real':
                    return ['-', self.rw(x[1])]
                if self.mode == 'ff':
                    return ['ff.neg', self.rw(x[1])]
                return self.binop('fp.sub', self.const(Fraction(0)), self.rw(x[1]))
            if h in ('fp.isNaN', 'fp.isInfinite'):
                return 'false'
            if h == 'fp.isZero':
                return ['=', self.rw(x[1]), self.const(Fraction(0))]
            if h == 'fp.isNegative' and self.mode == 'real':
                return ['<', self.rw(x[1]), '0.0']
            if h == 'fp.isPositive' and self.mode == 'real':
                return ['>', self.rw(x[1]), '0.0']
            if h == 'fp.roundToIntegral' and self.mode == 'real':
                a = self.rw(x[2])
                if x[1] in ('roundTowardNegative', 'RTN'):
                    return ['to_real', ['to_int', a]]
                if x[1] in ('roundTowardPositive', 'RTP'):
                    return ['-', ['to_real', ['to_int', ['-', a]]]]
                if x[1] in ('roundTowardZero', 'RTZ'):
                    return ['ite', ['>=', a, '0.0'], ['to_real', ['to_int', a]],
                            ['-', ['to_real', ['to_int', ['-', a]]]]]
                raise Unsupported('roundToIntegral ' + str(x[1]))
            if h.startswith('fp.') or h == 'fp':
                raise Unsupported('floating-point operator ' + h)
            if h == '=' and len(x) == 3:
                # CBMC writes float -> bits as (= ((_ to_fp e m) fresh_bv) fpexpr): drop the link (bits are havoc)
                pass
        if isinstance(h, list) and h[:2] == ['_', 'fp.to_sbv'] or isinstance(h, list) and h[:2] == ['_', 'fp.to_ubv']:
            if self.mode != 'real':
                raise Unsupported('fp.to_sbv in GF mode')
            w = int(h[2])
            a = self.rw(x[2])
            if x[1] not in ('roundTowardZero', 'RTZ'):
                raise Unsupported('fp.to_sbv rounding ' + str(x[1]))
            return [['_', 'int2bv', str(w)], ['ite', ['>=', a, '0.0'], ['to_int', a], ['-', ['to_int', ['-', a]]]]]
        if isinstance(h, list) and h[:2] in (['_', 'to_fp'], ['_', 'to_fp_unsigned']):
            if len(x) == 3 and x[1] in RM:
                if self.is_fp_expr(x[2]):
                    return self.rw(x[2])      # float<->double: identity in the field
                w = self.bvwidth(x[2])
                if w is None:
                    raise Unsupported('to_fp from integer of unknown width: ' + out(x[2])[:80])
                return self.int_to_field(w, self.rw(x[2]), signed=(h[1] == 'to_fp'))
            if len(x) == 2:
                self.stats['reinterp'] += 1
                return self.new_havoc('bit reinterpretation to_fp of ' + out(x[1])[:60])
            raise Unsupported('to_fp form')
        return [self.rw(y) for y in x]

    def rewrite(self, text):
        forms = parse(tokenize(text))
        self.bvsyms, self.arrsyms, self.fparrs = {}, {}, set()
        for f in forms:
            if f and f[0] in ('declare-fun', 'define-fun') and len(f) >= 4:
                srt = f[3]
                if is_fpsort(srt):
                    self.fpsyms[f[1]] = (int(srt[2]), int(srt[3]))
                elif is_fparray(srt):
                    self.fparrs.add(f[1])
                elif isinstance(srt, list) and len(srt) == 3 and srt[0] == '_' and srt[1] == 'BitVec':
                    self.bvsyms[f[1]] = int(srt[2])
                elif isinstance(srt, list) and len(srt) == 3 and srt[0] == 'Array':
                    e = srt[2]
                    if isinstance(e, list) and len(e) == 3 and e[1] == 'BitVec':
                        self.arrsyms[f[1]] = int(e[2])
        res = []
        for f in forms:
            if not f:
                continue
            if f[0] == 'set-logic':
                res.append({'real': '(set-logic ALL)', 'ff': '(set-logic ALL)', 'gf': '(set-logic QF_AUFBV)'}[self.mode])
                if self.mode == 'real':
                    res.append('(define-fun absR ((x Real)) Real (ite (< x 0.0) (- x) x))')
                elif self.mode == 'ff':
                    F = out(self.elem_sort())
                    res.append('(declare-fun finv (%s) %s)' % (F, F))
                    res.append('(declare-fun rank (%s) (_ BitVec 16))' % F)
                    for w in (8, 16, 32, 64):
                        res.append('(declare-fun i2f%d ((_ BitVec %d)) %s)' % (w, w, F))
                else:
                    res.append('(declare-fun finv ((_ BitVec %d)) (_ BitVec %d))' % (self.W, self.W))
                res.append('@@FRESH@@')
                continue
            if f[0] in ('get-value', 'set-option', 'exit', 'set-info', 'get-model'):
                continue
            if f[0] == 'define-fun' and is_fpsort(f[3]) and not self.is_fp_expr(f[4]):
                # ill-sorted definition (flattened struct member): havoc
                self.stats['havoc_syms'] += 1
                self.havoc.append('struct member ' + f[1])
                res.append('(declare-fun %s () %s)' % (f[1], out(self.elem_sort())))
                if self.mode == 'gf':
                    res.append('(assert (bvult %s (_ bv%d %d)))' % (f[1], self.P, self.W))
                continue
            if f[0] == 'check-sat' and self.mode == 'ff':
                zero, one = out(self.const(Fraction(0))), out(self.const(Fraction(1)))
                seen = set()
                for b in self.divsites:
                    t = out(b)
                    if t in seen:
                        continue
                    seen.add(t)
                    res.append('(assert (=> (not (= %s %s)) (= (ff.mul %s (finv %s)) %s)))' % (t, zero, t, t, one))
                seen = set()
                for b in self.ranksites:
                    t = out(b)
                    if t in seen:
                        continue
                    seen.add(t)
                    res.append('(assert (bvule (rank %s) (rank %s)))' % (zero, t))
                    res.append('(assert (=> (= (rank %s) (rank %s)) (= %s %s)))' % (zero, t, t, zero))
            if f[0] == 'check-sat' and self.mode == 'gf':
                zero, one = out(self.const(Fraction(0))), out(self.const(Fraction(1)))
                seen = set()
                for b in self.divsites:
                    s = out(b)
                    if s in seen:
                        continue
                    seen.add(s)
                    res.append('(assert (=> (not (= %s %s)) (= %s %s)))' %
                               (s, zero, out(self.binop('fp.mul', b, ['finv', b])), one))
                    res.append('(assert (bvult (finv %s) (_ bv%d %d)))' % (s, self.P, self.W))
            r = self.rw(f)
            res.append(out(r))
            if f[0] == 'declare-fun' and self.mode == 'gf' and is_fpsort(f[3]) and not f[2]:
                res.append('(assert (bvult %s (_ bv%d %d)))' % (f[1], self.P, self.W))
        txt = '\n'.join(res).replace('@@FRESH@@', '\n'.join(self.fresh))
        info = dict(self.stats)
        info['havoc'] = self.havoc
        info['mode'] = self.mode if self.mode == 'real' else '%s%d' % (self.mode, self.P)
        return txt + '\n', info


def main():
    mode = sys.argv[3] if len(sys.argv) > 3 else 'real'
    prime = int(sys.argv[4]) if len(sys.argv) > 4 else 13
    rw = Rewriter(mode, prime)
    try:
        txt, info = rw.rewrite(open(sys.argv[1]).read())
    except Unsupported as e:
        sys.stderr.write('fp2alg: unsupported: %s\n' % e)
        sys.exit(3)
    open(sys.argv[2], 'w').write(txt)
    sys.stderr.write('fp2alg: %s\n' % {k: v for k, v in info.items() if k != 'havoc'})


if __name__ == '__main__':
    sys.setrecursionlimit(100000)
    main()
